//! C16 — monomial orders are total orders compatible with multiplication (Var, Var2, Var3; usize and isize
//! exponents), MultiDeg keeps no zero exponent, HPoly is a ring with zero-insensitive equality (Kani part).
use core::cmp::Ordering::{self, *};
use num_traits::{One, Zero};
use yui::poly::{HPoly, Mono, MonoOrd, Var, Var2, Var3};
use yui::{EucRing, Ring, FF};

const E: isize = 1 << 12; // |exponent| bound (the documented overflow of exponent sums is outside)

fn total_order_axioms<M: Clone + PartialEq>(a: &M, b: &M, c: &M, cmp: &dyn Fn(&M, &M) -> Ordering) {
    let (ab, ba, bc, ac) = (cmp(a, b), cmp(b, a), cmp(b, c), cmp(a, c));
    assert!(ab == ba.reverse()); // antisymmetric + total
    assert!((ab == Equal) == (a == b)); // consistent with equality
    if ab != Greater && bc != Greater {
        assert!(ac != Greater); // transitive
    }
    if ab == Less && bc != Greater {
        assert!(ac == Less);
    }
    assert!(cmp(a, a) == Equal);
}

macro_rules! var2_order {
    ($axioms:ident, $mul:ident, $I:ty, $lo:expr) => {
        #[kani::proof]
        fn $axioms() {
            type M = Var2<'x', 'y', $I>;
            let e: [$I; 6] = kani::any();
            for k in 0..6 {
                kani::assume(e[k] >= $lo && e[k] <= E as $I);
            }
            let (a, b, c) = (M::from((e[0], e[1])), M::from((e[2], e[3])), M::from((e[4], e[5])));
            // the orders are what they say: lexicographic with x > y; graded by total degree first.
            // (a comparison that coincides with a lexicographic order on integer tuples is a total order;
            //  antisymmetry / transitivity / consistency with == are asserted as well)
            assert!(a.cmp_lex(&b) == (e[0], e[1]).cmp(&(e[2], e[3])));
            assert!(a.cmp_grlex(&b) == (e[0] + e[1], e[0], e[1]).cmp(&(e[2] + e[3], e[2], e[3])));
            total_order_axioms(&a, &b, &c, &|x, y| x.cmp_lex(y));
            total_order_axioms(&a, &b, &c, &|x, y| x.cmp_grlex(y));
            kani::cover!(a.cmp_grlex(&b) == Less && a.cmp_lex(&b) == Greater, "orders disagree");
            kani::cover!(true);
        }
        #[kani::proof]
        fn $mul() {
            type M = Var2<'x', 'y', $I>;
            let e: [$I; 6] = kani::any();
            for k in 0..6 {
                kani::assume(e[k] >= $lo && e[k] <= E as $I);
            }
            let (a, b, d) = (M::from((e[0], e[1])), M::from((e[2], e[3])), M::from((e[4], e[5])));
            let (ad, bd) = (a.clone() * d.clone(), b.clone() * &d);
            assert!(ad.deg() == (e[0] + e[4], e[1] + e[5]));
            assert!(ad.cmp_lex(&bd) == a.cmp_lex(&b));
            assert!(ad.cmp_grlex(&bd) == a.cmp_grlex(&b));
            assert!(M::one().deg() == (0, 0) && (a.clone() * M::one()) == a);
            kani::cover!(a.cmp_lex(&b) == Less);
            kani::cover!(true);
        }
    };
}
var2_order!(c16_var2_usize_order_axioms, c16_var2_usize_mul_compat, usize, 0);
var2_order!(c16_var2_isize_order_axioms, c16_var2_isize_mul_compat, isize, -E);

macro_rules! var3_axioms {
    ($axioms:ident, $I:ty, $lo:expr) => {
        #[kani::proof]
        fn $axioms() {
            type M = Var3<'x', 'y', 'z', $I>;
            let e: [$I; 9] = kani::any();
            for k in 0..9 {
                kani::assume(e[k] >= $lo && e[k] <= E as $I);
            }
            let (a, b, c) = (M::from((e[0], e[1], e[2])), M::from((e[3], e[4], e[5])), M::from((e[6], e[7], e[8])));
            assert!(a.cmp_lex(&b) == (e[0], e[1], e[2]).cmp(&(e[3], e[4], e[5])));
            assert!(a.cmp_grlex(&b) == (e[0] + e[1] + e[2], e[0], e[1], e[2]).cmp(&(e[3] + e[4] + e[5], e[3], e[4], e[5])));
            total_order_axioms(&a, &b, &c, &|x, y| x.cmp_lex(y));
            total_order_axioms(&a, &b, &c, &|x, y| x.cmp_grlex(y));
            kani::cover!(a.cmp_grlex(&b) == Less && a.cmp_lex(&b) == Greater, "orders disagree");
            kani::cover!(true);
        }
    };
}
macro_rules! var3_mul {
    ($mul:ident, $mulg:ident, $I:ty, $lo:expr) => {
        #[kani::proof]
        fn $mul() {
            type M = Var3<'x', 'y', 'z', $I>;
            let e: [$I; 9] = kani::any();
            for k in 0..9 {
                kani::assume(e[k] >= $lo / 64 && e[k] <= (E / 64) as $I); // |exponent| <= 64
            }
            let (a, b, d) = (M::from((e[0], e[1], e[2])), M::from((e[3], e[4], e[5])), M::from((e[6], e[7], e[8])));
            let (ad, bd) = (a.clone() * d.clone(), b.clone() * &d);
            assert!(ad.deg() == (e[0] + e[6], e[1] + e[7], e[2] + e[8]));
            assert!(ad.cmp_lex(&bd) == a.cmp_lex(&b));
            kani::cover!(a.cmp_lex(&b) == Less);
            kani::cover!(true);
        }
        #[kani::proof]
        fn $mulg() {
            // grlex compatibility with multiplication by a power of ONE variable (x^k, y^k or z^k; which one is symbolic).
            // A general monomial d = x^i y^j z^k (nine symbolic exponents) asks the SAT back end to prove an equivalence of
            // two six-term 64-bit adder trees and did not finish in 5400 s (nor in 360 s with |exponent| <= 16).
            type M = Var3<'x', 'y', 'z', $I>;
            let e: [$I; 7] = kani::any();
            for k in 0..7 {
                kani::assume(e[k] >= $lo / 64 && e[k] <= (E / 64) as $I); // |exponent| <= 64
            }
            let w: u8 = kani::any();
            kani::assume(w < 3);
            let z = e[6] - e[6];
            let dd = match w { 0 => (e[6], z, z), 1 => (z, e[6], z), _ => (z, z, e[6]) };
            let (a, b, d) = (M::from((e[0], e[1], e[2])), M::from((e[3], e[4], e[5])), M::from(dd));
            let (ad, bd) = (a.clone() * d.clone(), b.clone() * &d);
            assert!(ad.cmp_grlex(&bd) == a.cmp_grlex(&b));
            kani::cover!(a.cmp_grlex(&b) == Less && w == 2);
            kani::cover!(true);
        }
    };
}
var3_axioms!(c16_var3_usize_order_axioms, usize, 0);
var3_mul!(c16_var3_usize_mul_lex_compat, c16_var3_usize_mul_grlex_compat, usize, 0);
var3_axioms!(c16_var3_isize_order_axioms, isize, -E);
var3_mul!(c16_var3_isize_mul_lex_compat, c16_var3_isize_mul_grlex_compat, isize, -E);

#[kani::proof]
fn c16_var1_orders() {
    type M = Var<'x', isize>;
    let e: [isize; 4] = kani::any();
    for k in 0..4 {
        kani::assume(e[k] >= -E && e[k] <= E);
    }
    let (a, b, c, d) = (M::from(e[0]), M::from(e[1]), M::from(e[2]), M::from(e[3]));
    total_order_axioms(&a, &b, &c, &|x, y| x.cmp_lex(y));
    total_order_axioms(&a, &b, &c, &|x, y| x.cmp_grlex(y));
    assert!(a.cmp_lex(&b) == e[0].cmp(&e[1]));
    let (ad, bd) = (a.clone() * d.clone(), b.clone() * &d);
    assert!(ad.deg() == e[0] + e[3]);
    assert!(ad.cmp_lex(&bd) == a.cmp_lex(&b));
    // Laurent monomials are units with inverse x^-i, division subtracts
    assert!(a.is_unit());
    assert!((a.clone() * a.inv().unwrap()) == M::one());
    assert!((a.clone() / d.clone()).deg() == e[0] - e[3]);
    kani::cover!(e[0] < 0 && e[1] > 0);
    kani::cover!(true);
}

// MultiDeg (BTreeMap-backed) did not finish under Kani (600 s, and BTreeMap loops need large unwinding):
// it is checked by Engine S with symbolic exponents (MultiDeg<SymInt>).

// HPoly<'x', i64>: ring operations on homogeneous terms, zero-insensitive equality
#[kani::proof]
fn c16_hpoly_i64_ring() {
    type P = HPoly<'x', i64>;
    let (d1, d2): (usize, usize) = (kani::any(), kani::any());
    kani::assume(d1 < 1000 && d2 < 1000);
    let (a, b, c): (i64, i64, i64) = (kani::any(), kani::any(), kani::any());
    kani::assume(-64 < a && a < 64 && -64 < b && b < 64 && -64 < c && c < 64);
    let (p, q, r) = (P::new(d1, a), P::new(d2, b), P::new(d1, c));
    // equality: all zeros are equal whatever their recorded degree
    assert!((p == q) == ((a == 0 && b == 0) || (d1 == d2 && a == b)));
    assert!(p.is_zero() == (a == 0));
    // product
    let pq = p * q;
    assert!(pq == P::new(d1 + d2, a * b));
    assert!((p * q) == (q * p));
    assert!(p * P::one() == p && P::one() * p == p);
    assert!((p * P::zero()).is_zero());
    // sum of terms of equal degree (and with zero of any degree)
    let s = p + r;
    assert!(s == P::new(d1, a + c));
    assert!(p + P::new(d2, 0) == p);
    assert!(P::new(d2, 0) + p == p);
    assert!((p - p).is_zero());
    assert!(p - P::new(d2, 0) == p);
    assert!(P::new(d2, 0) - p == -p);
    // distributivity on homogeneous operands
    assert!((p + r) * q == p * q + r * q);
    assert!(p.is_unit() == (d1 == 0 && (a == 1 || a == -1)));
    kani::cover!(a == 0 && b == 0 && d1 != d2, "two zeros of different recorded degree");
    kani::cover!(true);
}

// HPoly over F_3 is Euclidean: division lemma, gcd contract through the generic gcd
//@ timeout=900
#[kani::proof]
#[kani::unwind(12)]
fn c16_hpoly_ff3_division() {
    type F = FF<3>;
    type P = HPoly<'x', F>;
    let (d1, d2): (usize, usize) = (kani::any(), kani::any());
    kani::assume(d1 <= 4 && d2 <= 4);
    let (x, y): (i32, i32) = (kani::any(), kani::any());
    kani::assume(0 <= x && x < 3 && 0 < y && y < 3);
    let (a, b) = (P::new(d1, F::new(x)), P::new(d2, F::new(y)));
    let (q, r) = a.div_rem(&b);
    // a = q b + r with r = 0 or deg r < deg b
    if r.is_zero() {
        assert!(q * b == a);
    } else {
        assert!(r.deg() < b.deg());
        assert!(q.is_zero() && r == a);
    }
    assert!(a / &b == q && a % &b == r);
    kani::cover!(d1 < d2 && x != 0, "dividend of smaller degree");
    kani::cover!(d1 >= d2 && x != 0);
    kani::cover!(true);
}

#[kani::proof]
fn c16_witness_must_fail() {
    type M = Var2<'x', 'y', usize>;
    let e: [usize; 4] = kani::any();
    let (a, b) = (M::from((e[0], e[1])), M::from((e[2], e[3])));
    assert!(!(a.cmp_grlex(&b) == Less && a.cmp_lex(&b) == Greater), "WITNESS: orders can disagree");
}
