//! C14 — scalar types are exact commutative rings with canonical representatives (Kani part).
//! Instantiations: FF<3>, FF<5>, FF<7>, FF2, Ratio<i64> (bounded operands), Ratio<i64>::cmp.
use num_traits::{One, Zero};
use yui::{EucRing, Ratio, Ring, FF, FF2};

/// all by-value / by-reference / assigning forms of one binary operator; every form must give `expect`.
macro_rules! all_forms {
    ($a:expr, $b:expr, $op:tt, $opa:tt, $check:expr) => {{
        let (a, b) = ($a, $b);
        let check = $check;
        check(a $op b);
        check(&a $op &b);
        check(a $op &b);
        check(&a $op b);
        let mut c = a; c $opa b; check(c);
        let mut c = a; c $opa &b; check(c);
    }};
}

macro_rules! ff_harness {
    ($name:ident, $p:literal) => {
        #[kani::proof]
        fn $name() {
            type F = FF<$p>;
            const P: i64 = $p;
            let (x, y): (i32, i32) = (kani::any(), kani::any());
            let (a, b) = (F::new(x), F::from(y));
            let (ra, rb) = ((x as i64).rem_euclid(P), (y as i64).rem_euclid(P));
            // canonical representative
            assert!(*a.rep() as i64 == ra && *b.rep() as i64 == rb);
            assert!((a == b) == (ra == rb));
            assert!(a.is_zero() == (ra == 0) && a.is_one() == (ra == 1));
            assert!(*F::zero().rep() == 0 && *F::one().rep() == 1);
            all_forms!(a, b, +, +=, |c: F| assert!(*c.rep() as i64 == (ra + rb).rem_euclid(P)));
            all_forms!(a, b, -, -=, |c: F| assert!(*c.rep() as i64 == (ra - rb).rem_euclid(P)));
            all_forms!(a, b, *, *=, |c: F| assert!(*c.rep() as i64 == (ra * rb).rem_euclid(P)));
            assert!(*(-a).rep() as i64 == (-ra).rem_euclid(P));
            assert!(*(-&a).rep() as i64 == (-ra).rem_euclid(P));
            kani::cover!(ra == P - 1 && rb == P - 1, "largest residues");
            kani::cover!(x == i32::MIN, "i32::MIN as input");
            kani::cover!(true);
        }
    };
}
ff_harness!(c14_ff3_ring_ops, 3);
ff_harness!(c14_ff5_ring_ops, 5);
ff_harness!(c14_ff7_ring_ops, 7);

#[kani::proof]
fn c14_ff2_ring_ops() {
    let (x, y): (i64, i64) = (kani::any(), kani::any());
    let (a, b) = (FF2::from(x), FF2::from(y));
    let (ra, rb) = (x.rem_euclid(2) == 1, y.rem_euclid(2) == 1);
    assert!(a.is_one() == ra && a.is_zero() == !ra);
    assert!((a == b) == (ra == rb));
    all_forms!(a, b, +, +=, |c: FF2| assert!(c.is_one() == (ra ^ rb)));
    all_forms!(a, b, -, -=, |c: FF2| assert!(c.is_one() == (ra ^ rb)));
    all_forms!(a, b, *, *=, |c: FF2| assert!(c.is_one() == (ra & rb)));
    assert!((-a) == a && (-&a) == a);
    let z: i32 = kani::any();
    assert!(FF2::from(z).is_one() == (z.rem_euclid(2) == 1));
    kani::cover!(x == i64::MIN);
    kani::cover!(ra && rb);
    kani::cover!(true);
}

// ---------------------------------------------------------------- Ratio<i32>, bounded operands
// Instantiation: Ratio<i32> (the generic Ratio<T> code over a machine integer; i32 rather than i64 because
// every gcd/lcm/div step is a symbolic-by-symbolic divider and the 64-bit circuits did not finish:
// 3.5M variables / 19M clauses per query at i64).  Specification arithmetic is done in i64.

type Q = Ratio<i32>;
const QN: i32 = 12; // |numerator| <= QN
const QD: i32 = 6;  // 1 <= denominator <= QD

/// loop-free coprimality for 1 <= d <= 6: no prime <= 5 divides both
fn coprime_small(n: i32, d: i32) -> bool {
    !(n % 2 == 0 && d % 2 == 0) && !(n % 3 == 0 && d % 3 == 0) && !(n % 5 == 0 && d % 5 == 0)
}

/// arbitrary canonical rational n/d (lowest terms, d > 0) within the bounds
fn any_q() -> (Q, i64, i64) {
    let n: i32 = kani::any();
    let d: i32 = kani::any();
    kani::assume(-QN <= n && n <= QN && 1 <= d && d <= QD);
    kani::assume(coprime_small(n, d));
    kani::assume(n != 0 || d == 1);
    let q = if d == 1 && kani::any() { Q::from(n) } else { Q::new(n, d) };
    (q, n as i64, d as i64)
}

/// canonical: positive denominator, zero is 0/1, and no k >= 2 divides both parts
/// (k is a fresh symbolic value: the solver looks for a common divisor)
fn canonical(q: &Q) -> bool {
    let (n, d) = (*q.numer(), *q.denom());
    let k: i32 = kani::any();
    kani::assume(2 <= k && k <= 1024);
    d > 0 && (n != 0 || d == 1) && !(n % k == 0 && d % k == 0)
}

/// q == n/d as rationals (cross multiplication; operands are small, i64 is ample)
fn same(q: &Q, n: i64, d: i64) -> bool {
    d != 0 && (*q.numer() as i64) * d == n * (*q.denom() as i64)
}

#[kani::proof]
#[kani::unwind(20)]
fn c14_ratio_i32_new_reduces() {
    let n: i32 = kani::any();
    let d: i32 = kani::any();
    kani::assume(-QN <= n && n <= QN && -QN <= d && d <= QN && d != 0);
    let q = Q::new(n, d);
    assert!(canonical(&q));
    assert!(same(&q, n as i64, d as i64));
    let r = Q::from((n, d));
    assert!(r == q);
    kani::cover!(d < 0 && n % d == 0 && n != 0, "negative denominator dividing numerator");
    kani::cover!(true);
}

// Ratio<i32> +, -, * from two symbolic canonical operands did not finish under Kani (each query > 900 s:
// several symbolic gcd/lcm loops of 32-bit dividers); these are decided by Engine S on Ratio<SymInt> instead.

//@ tier=thorough timeout=1200
#[kani::proof]
#[kani::unwind(20)]
fn c14_ratio_i32_div_neg_inv() {
    let (a, an, ad) = any_q();
    let (b, bn, bd) = any_q();
    let m = if kani::any() { -a } else { -&a };
    assert!(canonical(&m) && same(&m, -an, ad));
    assert!(a.is_unit() == (an != 0));
    assert!(a.inv().is_some() == (an != 0));
    if bn != 0 {
        let i = b.inv().unwrap();
        assert!(canonical(&i) && same(&i, bd, bn));
        let c = if kani::any() { a / b } else { &a / &b };
        assert!(canonical(&c));
        assert!(same(&c, an * bd, ad * bn));
        assert!((a % b).is_zero());
    }
    kani::cover!(bn < 0 && an > 0, "division by a negative");
    kani::cover!(true);
}

// ---------------------------------------------------------------- order on Q

/// integers embedded in Q, full i64 width: cmp must be the order of Z and consistent with ==
#[kani::proof]
fn c14_ratio_i64_cmp_integers_full_width() {
    use core::cmp::Ordering::*;
    let (x, y): (i64, i64) = (kani::any(), kani::any());
    let (a, b) = (Ratio::<i64>::from(x), Ratio::<i64>::from(y));
    let c = a.cmp(&b);
    assert!(c == x.cmp(&y));
    assert!((c == Equal) == (a == b));
    assert!(a.partial_cmp(&b) == Some(c));
    kani::cover!(x > (1 << 60) && y == x - 1, "adjacent large integers");
    kani::cover!(true);
}

/// general canonical operands with |n|, d < 2^31 (so exact cross multiplication fits in i128 easily)
//@ tier=thorough timeout=1800
#[kani::proof]
#[kani::unwind(70)]
fn c14_ratio_i64_cmp_general() {
    use core::cmp::Ordering::*;
    let (an, ad, bn, bd): (i64, i64, i64, i64) = (kani::any(), kani::any(), kani::any(), kani::any());
    const L: i64 = 1 << 31;
    kani::assume(-L < an && an < L && 0 < ad && ad < L && -L < bn && bn < L && 0 < bd && bd < L);
    // canonical representation is an invariant of Ratio; From<T> builds n/1, division by an integer
    // would run gcd. To stay loop-free we only need denominators positive: compare n/d through new_raw's
    // public equivalents: Ratio::from(n) / Ratio::from(d) would reduce, so restrict to already reduced pairs
    // by construction below (d = 1 or n = +-1 keeps gcd trivially 1).
    let pick: bool = kani::any();
    let (a, b) = if pick {
        (Ratio::<i64>::from(an), Ratio::<i64>::from(bn))
    } else {
        kani::assume(an == 1 || an == -1);
        kani::assume(bn == 1 || bn == -1);
        (Ratio::<i64>::new(an, ad), Ratio::<i64>::new(bn, bd))
    };
    let (ad, bd) = if pick { (1, 1) } else { (ad, bd) };
    let lhs = (an as i128) * (bd as i128);
    let rhs = (bn as i128) * (ad as i128);
    let c = a.cmp(&b);
    assert!(c == lhs.cmp(&rhs));
    assert!((c == Equal) == (a == b));
    kani::cover!(!pick && ad > 1000 && bd > 1000 && c == Less);
    kani::cover!(true);
}

#[kani::proof]
fn c14_witness_must_fail() {
    let x: i32 = kani::any();
    let a = FF::<5>::new(x);
    assert!(*a.rep() != 4, "WITNESS: residue 4 reachable");
}
