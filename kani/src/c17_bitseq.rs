//! C17 — BitSeq behaves as a list of at most 64 booleans.
//!
//! Specification used by every harness: a sequence is `(val as u128, len)` read LSB first,
//! i.e. element i is bit i of `val`, valid iff `len <= 64 && val < 2^len`.
//! Harness naming:  c17_<op>           : from an arbitrary valid state, valid arguments -> result == list model
//!                  c17_<op>_reject    : arguments that would exceed 64 bits / index out of range -> the call
//!                                       must not return (the line `REJECT-EXPECTED` must be unreachable);
//!                                       panics inside the call are the expected behaviour there.
use yui::bitseq::{Bit, BitSeq};

const MAX: usize = 64;

fn pow2(len: usize) -> u128 {
    1u128 << len
}

fn any_valid() -> (BitSeq, u64, usize) {
    let len: usize = kani::any();
    kani::assume(len <= MAX);
    let val: u64 = kani::any();
    kani::assume((val as u128) < pow2(len));
    (BitSeq::new(val, len), val, len)
}

fn is_valid(b: &BitSeq) -> bool {
    b.len() <= MAX && (b.as_u64() as u128) < pow2(b.len())
}

fn bit(v: u64, i: usize) -> bool {
    i < 64 && (v >> i) & 1 == 1
}

fn any_bit() -> (Bit, bool) {
    let b: bool = kani::any();
    (Bit::from(b), b)
}

macro_rules! reject {
    () => {
        assert!(false, "REJECT-EXPECTED: the call returned instead of rejecting");
    };
}

// ---------------------------------------------------------------- constructors

#[kani::proof]
fn c17_new() {
    let len: usize = kani::any();
    kani::assume(len <= MAX);
    let val: u64 = kani::any();
    kani::assume((val as u128) < pow2(len));
    let b = BitSeq::new(val, len);
    assert!(b.len() == len);
    assert!(b.as_u64() == val);
    assert!(b.is_empty() == (len == 0));
    kani::cover!(len == 64, "len 64 reached");
    kani::cover!(true);
}

#[kani::proof]
fn c17_new_reject() {
    let len: usize = kani::any();
    let val: u64 = kani::any();
    kani::assume(len > MAX || (len < 64 && (val as u128) >= pow2(len)));
    let _b = BitSeq::new(val, len);
    reject!();
}

#[kani::proof]
fn c17_new_rev() {
    let len: usize = kani::any();
    kani::assume(len <= MAX);
    let val: u64 = kani::any();
    kani::assume((val as u128) < pow2(len));
    let b = BitSeq::new_rev(val, len);
    assert!(b.len() == len);
    assert!(is_valid(&b));
    let i: usize = kani::any();
    kani::assume(i < len);
    assert!(bit(b.as_u64(), i) == bit(val, len - 1 - i));
    kani::cover!(true);
}

#[kani::proof]
fn c17_new_rev_reject() {
    let len: usize = kani::any();
    let val: u64 = kani::any();
    kani::assume(len > MAX);
    let _b = BitSeq::new_rev(val, len);
    reject!();
}

#[kani::proof]
fn c17_empty_zeros_ones() {
    let e = BitSeq::empty();
    assert!(e.len() == 0 && e.as_u64() == 0 && e.is_empty());
    let d = BitSeq::default();
    assert!(d == e);
    let len: usize = kani::any();
    kani::assume(len <= MAX);
    let z = BitSeq::zeros(len);
    assert!(z.len() == len && z.as_u64() == 0);
    let o = BitSeq::ones(len);
    assert!(o.len() == len);
    assert!((o.as_u64() as u128) == pow2(len) - 1);
    kani::cover!(len == 64, "len 64 reached");
    kani::cover!(true);
}

#[kani::proof]
fn c17_zeros_ones_reject() {
    let len: usize = kani::any();
    kani::assume(len > MAX);
    if kani::any() {
        let _ = BitSeq::zeros(len);
    } else {
        let _ = BitSeq::ones(len);
    }
    reject!();
}

// ---------------------------------------------------------------- observers

#[kani::proof]
#[kani::unwind(66)]
fn c17_weight() {
    let (b, val, _len) = any_valid();
    assert!(b.weight() == val.count_ones() as usize);
    kani::cover!(b.weight() == 64, "all 64 ones");
    kani::cover!(true);
}

#[kani::proof]
#[kani::unwind(66)]
fn c17_iter() {
    let (b, val, len) = any_valid();
    let mut n = 0usize;
    for x in b.iter() {
        assert!(x.is_one() == bit(val, n));
        assert!(x.is_zero() != x.is_one());
        assert!(x.as_u64() == (bit(val, n) as u64));
        n += 1;
    }
    assert!(n == len);
    kani::cover!(n == 64, "64 items");
    kani::cover!(true);
}

#[kani::proof]
fn c17_index() {
    let (b, val, len) = any_valid();
    let i: usize = kani::any();
    kani::assume(i < len);
    assert!(b[i].is_one() == bit(val, i));
    kani::cover!(i == 63, "index 63");
    kani::cover!(true);
}

#[kani::proof]
fn c17_index_reject() {
    let (b, _val, len) = any_valid();
    let i: usize = kani::any();
    kani::assume(i >= len);
    let _x = b[i];
    reject!();
}

// ---------------------------------------------------------------- mutators

#[kani::proof]
fn c17_set() {
    let (mut b, val, len) = any_valid();
    let i: usize = kani::any();
    kani::assume(i < len);
    let (x, xb) = any_bit();
    match kani::any::<u8>() % 3 {
        0 => b.set(i, x),
        1 => {
            kani::assume(!xb);
            b.set_0(i)
        }
        _ => {
            kani::assume(xb);
            b.set_1(i)
        }
    }
    assert!(b.len() == len);
    assert!(is_valid(&b));
    let j: usize = kani::any();
    kani::assume(j < len);
    assert!(bit(b.as_u64(), j) == if j == i { xb } else { bit(val, j) });
    kani::cover!(i == 63, "bit 63 set");
    kani::cover!(true);
}

#[kani::proof]
fn c17_set_reject() {
    let (mut b, _val, len) = any_valid();
    let i: usize = kani::any();
    kani::assume(i >= len);
    let (x, _) = any_bit();
    b.set(i, x);
    reject!();
}

#[kani::proof]
fn c17_push() {
    let (mut b, val, len) = any_valid();
    kani::assume(len < MAX);
    let (x, xb) = any_bit();
    match kani::any::<u8>() % 4 {
        0 => b.push(x),
        1 => {
            kani::assume(!xb);
            b.push_0()
        }
        2 => {
            kani::assume(xb);
            b.push_1()
        }
        _ => b += x,
    }
    assert!(b.len() == len + 1);
    assert!(is_valid(&b));
    assert!((b.as_u64() as u128) == (val as u128) + if xb { pow2(len) } else { 0 });
    kani::cover!(len == 63 && xb, "push 1 into slot 63");
    kani::cover!(true);
}

#[kani::proof]
fn c17_push_reject() {
    let (mut b, _val, len) = any_valid();
    kani::assume(len == MAX);
    let (x, _) = any_bit();
    b.push(x);
    reject!();
}

#[kani::proof]
fn c17_append() {
    let (mut a, av, al) = any_valid();
    let (b, bv, bl) = any_valid();
    kani::assume(al + bl <= MAX);
    match kani::any::<u8>() % 3 {
        0 => a.append(b),
        1 => a += &b,
        _ => a = a + &b,
    }
    assert!(a.len() == al + bl);
    assert!(is_valid(&a));
    assert!((a.as_u64() as u128) == (av as u128) + ((bv as u128) << al));
    kani::cover!(al == 64 && bl == 0, "append empty to full");
    kani::cover!(al == 0 && bl == 64, "append full to empty");
    kani::cover!(true);
}

#[kani::proof]
fn c17_append_reject() {
    let (mut a, _av, al) = any_valid();
    let (b, _bv, bl) = any_valid();
    kani::assume(al + bl > MAX);
    a.append(b);
    reject!();
}

#[kani::proof]
fn c17_remove() {
    let (mut b, val, len) = any_valid();
    let i: usize = kani::any();
    kani::assume(i < len);
    b.remove(i);
    assert!(b.len() == len - 1);
    assert!(is_valid(&b));
    let j: usize = kani::any();
    kani::assume(j < len - 1);
    assert!(bit(b.as_u64(), j) == if j < i { bit(val, j) } else { bit(val, j + 1) });
    kani::cover!(i == 63, "remove last of 64");
    kani::cover!(true);
}

#[kani::proof]
fn c17_remove_reject() {
    let (mut b, _val, len) = any_valid();
    let i: usize = kani::any();
    kani::assume(i >= len);
    b.remove(i);
    reject!();
}

#[kani::proof]
fn c17_insert() {
    let (mut b, val, len) = any_valid();
    kani::assume(len < MAX);
    let i: usize = kani::any();
    kani::assume(i <= len);
    let (x, xb) = any_bit();
    match kani::any::<u8>() % 3 {
        0 => b.insert(i, x),
        1 => {
            kani::assume(!xb);
            b.insert_0(i)
        }
        _ => {
            kani::assume(xb);
            b.insert_1(i)
        }
    }
    assert!(b.len() == len + 1);
    assert!(is_valid(&b));
    let j: usize = kani::any();
    kani::assume(j <= len);
    let expect = if j < i {
        bit(val, j)
    } else if j == i {
        xb
    } else {
        bit(val, j - 1)
    };
    assert!(bit(b.as_u64(), j) == expect);
    kani::cover!(i == 63, "insert at 63");
    kani::cover!(true);
}

#[kani::proof]
fn c17_insert_reject() {
    let (mut b, _val, len) = any_valid();
    let i: usize = kani::any();
    kani::assume(i > len || len == MAX);
    let (x, _) = any_bit();
    b.insert(i, x);
    reject!();
}

#[kani::proof]
fn c17_edit() {
    let (b, val, len) = any_valid();
    let i: usize = kani::any();
    kani::assume(i < len);
    let c = b.edit(|x| x.set_1(i));
    assert!(b.as_u64() == val && b.len() == len);
    assert!(c.len() == len && c.as_u64() == (val | (1u64 << i)));
    kani::cover!(true);
}

// ---------------------------------------------------------------- prefixes

#[kani::proof]
fn c17_sub() {
    let (b, val, len) = any_valid();
    let l: usize = kani::any();
    kani::assume(l <= len);
    let s = b.sub(l);
    assert!(s.len() == l);
    assert!((s.as_u64() as u128) == (val as u128) % pow2(l));
    assert!(s.is_sub(&b));
    kani::cover!(l == 64, "full prefix of 64");
    kani::cover!(true);
}

#[kani::proof]
fn c17_sub_reject() {
    let (b, _val, len) = any_valid();
    let l: usize = kani::any();
    kani::assume(l > len);
    let _s = b.sub(l);
    reject!();
}

#[kani::proof]
fn c17_is_sub() {
    let (a, av, al) = any_valid();
    let (b, bv, bl) = any_valid();
    let expect = al <= bl && (av as u128) == (bv as u128) % pow2(al);
    assert!(a.is_sub(&b) == expect);
    kani::cover!(al == 64 && expect, "64-bit prefix test true");
    kani::cover!(al == 64 && !expect, "64-bit prefix test false");
    kani::cover!(true);
}

// ---------------------------------------------------------------- conversions

#[kani::proof]
#[kani::unwind(67)]
fn c17_from_iter() {
    let n: usize = kani::any();
    kani::assume(n <= MAX);
    let val: u64 = kani::any();
    let b = BitSeq::from_iter((0..n).map(|i| bit(val, i)));
    assert!(b.len() == n);
    assert!((b.as_u64() as u128) == (val as u128) % pow2(n));
    kani::cover!(n == 64, "64 items");
    kani::cover!(true);
}

#[kani::proof]
#[kani::unwind(68)]
fn c17_from_iter_reject() {
    let val: u64 = kani::any();
    let last: bool = kani::any();
    let _b = BitSeq::from_iter((0..65usize).map(|i| if i < 64 { bit(val, i) } else { last }));
    reject!();
}

#[kani::proof]
#[kani::unwind(6)]
fn c17_from_array_and_scalar() {
    let a: [bool; 4] = kani::any();
    let b = BitSeq::from(a);
    assert!(b.len() == 4);
    let mut i = 0;
    while i < 4 {
        assert!(bit(b.as_u64(), i) == a[i]);
        i += 1;
    }
    let e = BitSeq::from([false; 0]);
    assert!(e.len() == 0 && e.as_u64() == 0);
    let x: bool = kani::any();
    let s = BitSeq::from(x);
    assert!(s.len() == 1 && s.as_u64() == x as u64);
    let k: u8 = kani::any();
    kani::assume(k <= 1);
    let s = BitSeq::from(k);
    assert!(s.len() == 1 && s.as_u64() == k as u64);
    let k: i64 = kani::any();
    kani::assume(k == 0 || k == 1);
    let s = BitSeq::from([k, 1 - k]);
    assert!(s.len() == 2 && s.as_u64() == (k as u64) | (((1 - k) as u64) << 1));
    kani::cover!(true);
}

#[kani::proof]
fn c17_bit_from_int_reject() {
    let k: i32 = kani::any();
    kani::assume(k != 0 && k != 1);
    let _b = Bit::from(k);
    reject!();
}

#[kani::proof]
#[kani::unwind(10)]
fn c17_generate() {
    let len: usize = kani::any();
    kani::assume(len <= 3);
    let mut n: u64 = 0;
    for b in BitSeq::generate(len) {
        assert!(b.len() == len);
        assert!(b.as_u64() == n);
        n += 1;
    }
    assert!((n as u128) == pow2(len));
    kani::cover!(n == 8);
    kani::cover!(true);
}

// ---------------------------------------------------------------- order

fn model_cmp(av: u64, al: usize, bv: u64, bl: usize) -> core::cmp::Ordering {
    use core::cmp::Ordering::*;
    if al != bl {
        return if al < bl { Less } else { Greater };
    }
    let (aw, bw) = (av.count_ones(), bv.count_ones());
    if aw != bw {
        return if aw < bw { Less } else { Greater };
    }
    if av != bv {
        return if av < bv { Less } else { Greater };
    }
    Equal
}

fn weight_spec(b: &BitSeq) -> usize {
    b.as_u64().count_ones() as usize
}

// Full width, compositional: BitSeq::weight is replaced by its specification (popcount), which
// c17_weight proves equivalent for every 64-bit value; what is decided here is the comparison
// structure (length, then weight, then value) on all pairs of valid sequences.
//@ stub=1
#[kani::proof]
#[kani::stub(yui::bitseq::BitSeq::weight, weight_spec)]
fn c17_ord_matches_model() {
    use core::cmp::Ordering::*;
    let (a, av, al) = any_valid();
    let (b, bv, bl) = any_valid();
    let c = a.cmp(&b);
    assert!(c == model_cmp(av, al, bv, bl));
    assert!((c == Equal) == (a == b));
    assert!((a == b) == (av == bv && al == bl));
    kani::cover!(c == Less && al == bl && av > bv, "weight dominates value");
    kani::cover!(al == 64 && bl == 64 && c == Greater, "two 64-bit sequences");
    kani::cover!(true);
}

// The same without any stub (the real weight loop inside cmp), lengths <= 12.
#[kani::proof]
#[kani::unwind(14)]
fn c17_ord_matches_model_unstubbed_12() {
    use core::cmp::Ordering::*;
    let (a, av, al) = any_valid();
    let (b, bv, bl) = any_valid();
    kani::assume(al <= 12 && bl <= 12);
    let c = a.cmp(&b);
    assert!(c == model_cmp(av, al, bv, bl));
    assert!((c == Equal) == (a == b));
    kani::cover!(c == Less && al == bl && av > bv, "weight dominates value");
    kani::cover!(true);
}

// partial_cmp / PartialOrd operators are consistent with cmp (weights bounded: the weight loop is
// covered at full width by c17_ord_matches_model; here len <= 8 keeps four comparisons cheap).
#[kani::proof]
#[kani::unwind(10)]
fn c17_ord_partial_consistent() {
    use core::cmp::Ordering::*;
    let (a, _av, al) = any_valid();
    let (b, _bv, bl) = any_valid();
    kani::assume(al <= 8 && bl <= 8);
    let c = a.cmp(&b);
    assert!(a.partial_cmp(&b) == Some(c));
    assert!(b.cmp(&a) == c.reverse());
    assert!((a < b) == (c == Less));
    assert!((a >= b) == (c != Less));
    kani::cover!(c == Less);
    kani::cover!(true);
}

// ---------------------------------------------------------------- vacuity witness (must FAIL)

#[kani::proof]
fn c17_witness_must_fail() {
    let (b, _v, len) = any_valid();
    kani::assume(len == 64);
    assert!(b.len() != 64, "WITNESS: reachable with len 64");
}
