#![allow(dead_code, unused_imports, unused_macros)]
#[cfg(kani)] mod c12_unionfind;
#[cfg(kani)] mod c14_scalars;
#[cfg(kani)] mod c15_euclid;
#[cfg(kani)] mod c16_poly;
#[cfg(kani)] mod c17_bitseq;
#[cfg(kani)] mod c18_link;
