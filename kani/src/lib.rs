#![allow(dead_code, unused_imports)]
#[cfg(kani)] mod c17_bitseq;
