//! C15 — Euclidean-domain operations (Kani part): exact rounding division, unit API of machine
//! integers, F_p as a Euclidean domain through the generic gcd/gcdx/lcm of euc_ring.rs.
use num_traits::{One, Zero};
use yui::{DivRound, EucRing, Ring, FF};

/// definition-level oracle at i16 operands (products in i64 via i128-free arithmetic)
fn is_rounded_quotient_64(a: i64, b: i64, q: i64) -> bool {
    let r = a - q * b;
    let two_r = 2 * r.abs();
    if two_r > b.abs() {
        return false;
    }
    if two_r == b.abs() {
        let other = if (r > 0) == (b > 0) { q + 1 } else { q - 1 };
        return q.abs() > other.abs();
    }
    true
}

/// i32 instantiation, both operands symbolic in [-2^10, 2^10): checked against the *definition*
/// (2|a - q b| <= |b| + tie rule) with exact i64 arithmetic.  Wider symbolic-by-symbolic ranges
/// did not finish (multiplier equivalence is hard for SAT); the unbounded statement over mathematical
/// integers is decided by Engine S, machine-width effects by the constant-divisor harnesses below.
//@ timeout=600
#[kani::proof]
fn c15_div_round_i32_definition_10bit() {
    let (a, b): (i32, i32) = (kani::any(), kani::any());
    kani::assume(b != 0 && -1024 <= a && a < 1024 && -1024 <= b && b < 1024);
    let q = a.div_round(&b);
    assert!(is_rounded_quotient_64(a as i64, b as i64, q as i64));
    kani::cover!(a > 1000 && b == 2 && a % 2 == 1, "tie");
    kani::cover!(a < -1000 && b == -7);
    kani::cover!(true);
}

/// reference model for full-width operands: truncated machine division, then an exact
/// comparison of 2|r| with |b| in i128 (no product of two symbolic operands is formed).
fn round_ref_i64(a: i64, b: i64) -> i128 {
    let (d0, r0) = (a / b, a % b);
    let (r, bb) = (r0 as i128, b as i128);
    if 2 * r.abs() >= bb.abs() {
        d0 as i128 + if (r > 0) == (bb > 0) { 1 } else { -1 }
    } else {
        d0 as i128
    }
}

const EXTREME_DIVISORS: [i64; 6] = [(1 << 53) + 1, -((1 << 53) + 1), i64::MAX, i64::MIN, i64::MIN + 1, i64::MAX - 1];

/// full 64-bit dividend, divisor one of two small constants (symbolic choice)
macro_rules! div_round_small_divisor {
    ($name:ident, $b1:literal, $b2:literal) => {
        #[kani::proof]
        fn $name() {
            let a: i64 = kani::any();
            let b: i64 = if kani::any() { $b1 } else { $b2 };
            kani::assume(!(a == i64::MIN && b == -1));
            let q = a.div_round(&b);
            assert!(q as i128 == round_ref_i64(a, b));
            kani::cover!(a > (1 << 60) && b == $b1, "beyond 2^53");
            kani::cover!(a == i64::MIN + 1 && b == $b2);
            kani::cover!(true);
        }
    };
}
//@ timeout=900
div_round_small_divisor!(c15_div_round_i64_divisor_pm1, 1, -1);
//@ timeout=900
div_round_small_divisor!(c15_div_round_i64_divisor_pm2, 2, -2);
//@ timeout=900
div_round_small_divisor!(c15_div_round_i64_divisor_pm3, 3, -3);
//@ timeout=900
div_round_small_divisor!(c15_div_round_i64_divisor_7_m10, 7, -10);

/// full 64-bit dividend, divisor drawn from a table of extreme constants
//@ timeout=900
#[kani::proof]
fn c15_div_round_i64_extreme_const_divisor() {
    let a: i64 = kani::any();
    let k: usize = kani::any();
    kani::assume(k < EXTREME_DIVISORS.len());
    let b = EXTREME_DIVISORS[k];
    let q = a.div_round(&b);
    assert!(q as i128 == round_ref_i64(a, b));
    kani::cover!(b == i64::MIN && a == i64::MAX, "extreme divisor");
    kani::cover!(b == i64::MIN && a == i64::MIN, "MIN / MIN");
    kani::cover!(true);
}

// (a table of constant dividends against a symbolic full-width divisor did not finish in 1200 s: outside.)

macro_rules! int_unit_api {
    ($name:ident, $t:ty) => {
        #[kani::proof]
        fn $name() {
            let a: $t = kani::any();
            let unit = a == 1 || a == -1;
            assert!(a.is_unit() == unit);
            match a.inv() {
                Some(i) => {
                    assert!(unit);
                    assert!(a * i == 1);
                }
                None => assert!(!unit),
            }
            assert!(a.is_pm_one() == unit);
            let u = a.normalizing_unit();
            assert!(u == 1 || u == -1);
            if a != <$t>::MIN {
                let n = a * u;
                assert!(n >= 0 && (n == a || n == -a));
                assert!(n.normalizing_unit() == 1); // idempotent
                assert!((-a).normalizing_unit() * (-a) == n || a == 0); // constant on associates
                assert!(a.normalized() == n);
            }
            kani::cover!(a == <$t>::MIN, "MIN examined");
            kani::cover!(unit);
            kani::cover!(true);
        }
    };
}
int_unit_api!(c15_int_unit_api_i64, i64);
int_unit_api!(c15_int_unit_api_i32, i32);

// gcd / gcdx / lcm of machine integers are forwarded to num-integer (impl_integer!); checked here on
// i32 with |a|,|b| <= 48 (Stein / extended Euclid loops, unwind 24 is checked by unwinding assertions).
//@ timeout=600
#[kani::proof]
#[kani::unwind(24)]
fn c15_i32_gcd_bounded() {
    let (a, b): (i32, i32) = (kani::any(), kani::any());
    kani::assume(-48 <= a && a <= 48 && -48 <= b && b <= 48);
    let d = i32::gcd(&a, &b);
    assert!(d >= 0);
    if a == 0 && b == 0 {
        assert!(d == 0);
    } else {
        assert!(d > 0 && a % d == 0 && b % d == 0);
        // every common divisor divides d
        let c: i32 = kani::any();
        kani::assume(1 <= c && c <= 48 && a % c == 0 && b % c == 0);
        assert!(d % c == 0);
    }
    assert!(a.divides(&b) == (a != 0 && b % a == 0));
    kani::cover!(a < 0 && b > 0 && d > 1);
    kani::cover!(true);
}

//@ timeout=600
#[kani::proof]
#[kani::unwind(24)]
fn c15_i32_gcdx_lcm_bounded() {
    let (a, b): (i32, i32) = (kani::any(), kani::any());
    kani::assume(-20 <= a && a <= 20 && -20 <= b && b <= 20);
    let (d, s, t) = i32::gcdx(&a, &b);
    assert!(d >= 0);
    assert!(s * a + t * b == d);
    if a != 0 || b != 0 {
        assert!(d > 0 && a % d == 0 && b % d == 0);
        let l = i32::lcm(&a, &b);
        assert!(l >= 0 && l * d == (a * b).abs());
    }
    kani::cover!(a < 0 && b > 0 && d > 1);
    kani::cover!(true);
}

// F_p as a Euclidean domain: the generic gcd / gcdx / lcm of euc_ring.rs are instantiated here
// (FF<p> does not override them), all residues symbolic.
macro_rules! ff_units {
    ($name:ident, $p:literal) => {
        #[kani::proof]
        #[kani::unwind(12)]
        fn $name() {
            type F = FF<$p>;
            let x: i32 = kani::any();
            kani::assume(0 <= x && x < $p);
            let a = F::new(x);
            assert!(a.is_unit() == (x != 0));
            match a.inv() {
                Some(i) => assert!(x != 0 && (a * i).is_one()),
                None => assert!(x == 0),
            }
            let u = a.normalizing_unit();
            assert!(u.is_unit());
            let n = a * u;
            assert!(if x == 0 { n.is_zero() } else { n.is_one() });
            assert!(n.normalizing_unit().is_one());
            kani::cover!(x == $p - 1);
            kani::cover!(true);
        }
    };
}
macro_rules! ff_divrem {
    ($name:ident, $p:literal) => {
        #[kani::proof]
        #[kani::unwind(12)]
        fn $name() {
            type F = FF<$p>;
            let (x, y): (i32, i32) = (kani::any(), kani::any());
            kani::assume(0 <= x && x < $p && 0 < y && y < $p);
            let (a, b) = (F::new(x), F::new(y));
            let (q, r) = if kani::any() { (a / b, a % b) } else { (&a / &b, &a % &b) };
            assert!(q * b + r == a);
            assert!(r.is_zero());
            kani::cover!(x > 1 && y > 1);
            kani::cover!(true);
        }
    };
}
macro_rules! ff_gcd {
    ($name:ident, $p:literal) => {
        #[kani::proof]
        #[kani::unwind(12)]
        fn $name() {
            type F = FF<$p>;
            let (x, y): (i32, i32) = (kani::any(), kani::any());
            kani::assume(0 <= x && x < $p && 0 <= y && y < $p);
            let (a, b) = (F::new(x), F::new(y));
            let d = F::gcd(&a, &b);
            // normalised associate: 0 if both are zero, else 1 (field) -- hence also independent of argument order
            assert!(if x == 0 && y == 0 { d.is_zero() } else { d.is_one() });
            kani::cover!(x > 1 && y == 1, "unit non-one first argument");
            kani::cover!(x == 1 && y > 1, "unit non-one second argument");
            kani::cover!(true);
        }
    };
}
macro_rules! ff_gcdx {
    ($name:ident, $p:literal) => {
        #[kani::proof]
        #[kani::unwind(12)]
        fn $name() {
            type F = FF<$p>;
            let (x, y): (i32, i32) = (kani::any(), kani::any());
            kani::assume(0 <= x && x < $p && 0 <= y && y < $p);
            let (a, b) = (F::new(x), F::new(y));
            let (g, s, t) = F::gcdx(&a, &b);
            assert!(if x == 0 && y == 0 { g.is_zero() } else { g.is_one() });
            assert!(s * a + t * b == g);
            kani::cover!(x > 1 && y > 1);
            kani::cover!(true);
        }
    };
}
macro_rules! ff_lcm {
    ($name:ident, $p:literal) => {
        #[kani::proof]
        #[kani::unwind(12)]
        fn $name() {
            type F = FF<$p>;
            let (x, y): (i32, i32) = (kani::any(), kani::any());
            kani::assume(0 <= x && x < $p && 0 <= y && y < $p && (x != 0 || y != 0));
            let (a, b) = (F::new(x), F::new(y));
            let l = F::lcm(&a, &b);
            // lcm * gcd ~ a * b, lcm normalised: in a field 0 if a*b == 0 else 1
            assert!(if x == 0 || y == 0 { l.is_zero() } else { l.is_one() });
            kani::cover!(x > 1 && y > 1);
            kani::cover!(true);
        }
    };
}
//@ unwind=12
ff_units!(c15_ff3_units, 3);
//@ unwind=12
ff_units!(c15_ff5_units, 5);
//@ unwind=12
ff_divrem!(c15_ff3_divrem, 3);
//@ unwind=12
ff_divrem!(c15_ff5_divrem, 5);
//@ unwind=12
ff_gcd!(c15_ff3_gcd, 3);
//@ unwind=12
ff_gcd!(c15_ff5_gcd, 5);
//@ unwind=12 timeout=600
ff_gcdx!(c15_ff3_gcdx, 3);
//@ unwind=12 timeout=600
ff_gcdx!(c15_ff5_gcdx, 5);
//@ unwind=12 timeout=600
ff_lcm!(c15_ff3_lcm, 3);
//@ unwind=12 timeout=600
ff_lcm!(c15_ff5_lcm, 5);

#[kani::proof]
fn c15_ff_div_by_zero_reject() {
    let x: i32 = kani::any();
    let a = FF::<3>::new(x);
    let _q = a / FF::<3>::zero();
    assert!(false, "REJECT-EXPECTED: division by zero returned");
}

#[kani::proof]
fn c15_witness_must_fail() {
    let (a, b): (i32, i32) = (kani::any(), kani::any());
    kani::assume(b != 0 && b != -1);
    let q = a.div_round(&b);
    assert!(q != 7, "WITNESS: quotient 7 reachable");
}
