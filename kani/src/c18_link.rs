//! C18 — per-crossing kernel of link diagrams (Kani part): pass / resolve / arcs / mirror of a Crossing with
//! symbolic type and edges; braid generators.  Link-level traversal (HashSet based) is outside.
use yui::bitseq::Bit;
use yui::Sign;
use yui_link::{Crossing, CrossingType, Generator};

fn any_type() -> CrossingType {
    match kani::any::<u8>() % 4 {
        0 => CrossingType::X,
        1 => CrossingType::Xm,
        2 => CrossingType::V,
        _ => CrossingType::H,
    }
}

#[kani::proof]
fn c18_crossing_pass_is_the_strand_relation() {
    let t = any_type();
    let e: [usize; 4] = kani::any();
    let c = Crossing::new(t, e);
    let i: usize = kani::any();
    kani::assume(i < 4);
    let j = c.pass(i);
    // fixed-point free involution of the four slots
    assert!(j < 4 && j != i && c.pass(j) == i);
    // the strand picture of each type
    match t {
        CrossingType::X | CrossingType::Xm => assert!(j == (i + 2) % 4),
        CrossingType::V => assert!((i, j) == (0, 3) || (i, j) == (3, 0) || (i, j) == (1, 2) || (i, j) == (2, 1)),
        CrossingType::H => assert!((i, j) == (0, 1) || (i, j) == (1, 0) || (i, j) == (2, 3) || (i, j) == (3, 2)),
    }
    assert!(c.edge(i) == e[i] && c.edges() == &e && c.ctype() == t);
    assert!(c.is_resolved() == (t == CrossingType::V || t == CrossingType::H));
    kani::cover!(t == CrossingType::V && i == 3);
    kani::cover!(true);
}

#[kani::proof]
fn c18_crossing_resolve_and_mirror() {
    let x = if kani::any() { CrossingType::X } else { CrossingType::Xm };
    let e: [usize; 4] = kani::any();
    let c = Crossing::new(x, e);
    let r: bool = kani::any();
    let d = c.resolved(Bit::from(r));
    // 0-resolution of X joins (0,1),(2,3) [H]; 1-resolution joins (0,3),(1,2) [V]; the mirror swaps them
    let want_h = (x == CrossingType::X) != r;
    assert!(d.ctype() == if want_h { CrossingType::H } else { CrossingType::V });
    assert!(d.edges() == &e && d.is_resolved());
    assert!(d.pass(0) == if want_h { 1 } else { 3 });
    let m = c.mirror();
    assert!(m.edges() == &e && m.mirror() == c);
    assert!(m.ctype() == if x == CrossingType::X { CrossingType::Xm } else { CrossingType::X });
    let i: usize = kani::any();
    kani::assume(i < 4);
    assert!(m.pass(i) == c.pass(i));
    // mirror then resolve r == resolve (1-r)
    assert!(m.resolved(Bit::from(r)).ctype() == c.resolved(Bit::from(!r)).ctype());
    // a resolved crossing is its own mirror
    let v = Crossing::new(if kani::any() { CrossingType::V } else { CrossingType::H }, e);
    assert!(v.mirror() == v);
    kani::cover!(x == CrossingType::Xm && r);
    kani::cover!(true);
}

#[kani::proof]
fn c18_crossing_resolve_resolved_reject() {
    let t = if kani::any() { CrossingType::V } else { CrossingType::H };
    let e: [usize; 4] = kani::any();
    let mut c = Crossing::new(t, e);
    c.resolve(Bit::from(kani::any::<bool>()));
    assert!(false, "REJECT-EXPECTED: resolving a resolved crossing returned");
}

#[kani::proof]
fn c18_generator() {
    let k: i32 = kani::any();
    kani::assume(k != 0 && k != i32::MIN);
    let g = Generator::from(k);
    assert!(g.index() == k.unsigned_abs() as usize);
    assert!(g.sign().is_positive() == (k > 0));
    assert!(g.inv().index() == g.index() && g.inv().sign().is_positive() == (k < 0));
    assert!(g.inv().inv() == g);
    let idx: usize = kani::any();
    kani::assume(idx >= 1 && idx < 1000);
    let pos: bool = kani::any();
    let h = Generator::new(idx, if pos { Sign::Pos } else { Sign::Neg });
    assert!(h.index() == idx && h.sign().is_positive() == pos);
    kani::cover!(k < 0);
    kani::cover!(true);
}

#[kani::proof]
fn c18_witness_must_fail() {
    let t = any_type();
    let c = Crossing::new(t, [0, 1, 2, 3]);
    assert!(c.pass(0) != 3, "WITNESS: V-type pass reachable");
}

#[kani::proof]
fn c18_crossing_convert_edges_keeps_type() {
    let t = any_type();
    let e: [usize; 4] = kani::any();
    kani::assume(e[0] < 1000 && e[1] < 1000 && e[2] < 1000 && e[3] < 1000);
    let c = Crossing::new(t, e);
    let k: usize = kani::any();
    kani::assume(k < 1000);
    let d = c.convert_edges(|x| 3 * x + k);
    assert!(d.ctype() == t);
    let i: usize = kani::any();
    kani::assume(i < 4);
    assert!(d.edge(i) == 3 * e[i] + k);
    assert!(d.pass(i) == c.pass(i));
    // relabelling commutes with mirroring
    assert!(c.mirror().convert_edges(|x| 3 * x + k) == d.mirror());
    kani::cover!(t == CrossingType::Xm);
    kani::cover!(true);
}

// Braid words: inv() is the inverse word (reversed, every letter inverted); word length 3 (symbolic letters)
#[kani::proof]
#[kani::unwind(5)]
fn c18_braid_inv_is_the_inverse_word() {
    use yui_link::Braid;
    let g: [i32; 3] = kani::any();
    kani::assume(g[0] != 0 && g[0] > -4 && g[0] < 4);
    kani::assume(g[1] != 0 && g[1] > -4 && g[1] < 4);
    kani::assume(g[2] != 0 && g[2] > -4 && g[2] < 4);
    let w = Braid::new(4, vec![Generator::from(g[0]), Generator::from(g[1]), Generator::from(g[2])]);
    let v = w.inv();
    assert!(v.len() == 3 && v.strands() == 4);
    let (we, ve) = (w.elements(), v.elements());
    assert!(ve[0] == we[2].inv() && ve[1] == we[1].inv() && ve[2] == we[0].inv());
    kani::cover!(g[0] != g[2], "non-palindromic word");
    kani::cover!(true);
}
