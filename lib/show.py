#!/usr/bin/env python3
import json, sys
e = json.load(open('/verif/evidence/%s.json' % sys.argv[1]))
s = e['coverage'].get('symx')
if s:
    for c in s['per_configuration']:
        print(c['harness'], 'cls', c['classes'], 'prov', c['classes_proven'], 'unk', c['classes_unknown'], 'flips?', c['undecided_branch_flips'],
              'div', c['nondeterministic_divergences'], 'exh', c['exhaustive'], '%.1fs' % c['wall_s'], c['stop_reason'][:40], 'ERR' if c['errors'] else '', 'VIOL' if c['violations'] else '')
k = e['coverage'].get('kani')
if k:
    for h in k['per_harness']:
        print(h['harness'], h['result'], h['solver_s'], h['wall_s'])
print(e['coverage'].get('errors'))
