"""Engine K: Kani / CBMC harness runner.

One `cargo kani --harness <h> --exact` process per harness (parallel), regular output parsed per check.
Harness kinds (by name):  *_reject     -> the call must not return: the check described REJECT-EXPECTED must
                                           not fail, and some panic inside the call must be reachable;
                          *_must_fail  -> vacuity witness: must FAIL with a WITNESS assertion;
                          otherwise    -> every check SUCCESS, every kani::cover! SATISFIED.
Annotations in the harness source, on `//@` lines right above `#[kani::proof]`:
    //@ tier=thorough timeout=600 stub=1 mem=12
A failing harness is replayed natively (cargo kani playback, dev and release profile) before a VIOLATION is
printed; a counterexample that does not reproduce gives exit status 2 (machinery error), never a VIOLATION.
"""
import os, re, sys, time, json, shutil, hashlib
from concurrent.futures import ThreadPoolExecutor
from common import *

KANI_DIR = os.path.join(VERIF, "kani")
TARGET = os.path.join(BUILD, "kani")
PLAYBACK_TARGET = os.path.join(BUILD, "kani_playback")

CHECK_RE = re.compile(
    r"Check \d+: (?P<name>.+)\n\s+- Status: (?P<status>\w+)\n\s+- Description: \"(?P<desc>.*?)\"\n(?:\s+- Location: (?P<loc>.*)\n)?")
TEST_RE = re.compile(
    r"/// Test generated for harness `(?P<h>[^`]+)`\s*\n///\s*\n/// Check for `(?P<cls>[^`]+)`: \"(?P<desc>.*?)\"\s*\n(?P<body>#\[test\]\nfn (?P<fn>\w+)\(\) \{.*?\n\})",
    re.S)


def discover():
    """-> list of dicts {name, full, module, file, kind, tier, timeout, stub, mem, unwind}"""
    out = []
    src = os.path.join(KANI_DIR, "src")
    for fn in sorted(os.listdir(src)):
        if not fn.endswith(".rs") or fn == "lib.rs":
            continue
        mod = fn[:-3]
        lines = open(os.path.join(src, fn)).read().split("\n")
        ann = {}
        pending = False
        unwind = None
        for ln in lines:
            s = ln.strip()
            if s.startswith("//@"):
                for kv in s[3:].split():
                    if "=" in kv:
                        k, v = kv.split("=", 1)
                        ann[k] = v
                continue
            if s.startswith("#[kani::proof"):
                pending = True
                continue
            m = re.match(r"#\[kani::unwind\((\d+)\)\]", s)
            if m:
                unwind = int(m.group(1))
                continue
            if s.startswith("#["):
                continue
            m = re.match(r"(?:pub )?fn (\w+)\s*\(", s)
            if m and pending:
                name = m.group(1)
                kind = "reject" if name.endswith("_reject") else "witness" if name.endswith("_must_fail") else "ok"
                out.append(dict(name=name, full=mod + "::" + name, module=mod, file=fn, kind=kind,
                                prop=name[:3].upper(),
                                tier=ann.get("tier", "quick"), timeout=int(ann.get("timeout", "300")),
                                stub=ann.get("stub", "0") == "1", mem=float(ann.get("mem", "12")),
                                unwind=unwind))
            if s and not s.startswith("//"):
                if not s.startswith("#["):
                    pending = False
                    ann = {}
                    unwind = None
    return out


def kani_cmd(h, extra=()):
    cmd = ["cargo", "kani", "--harness", h["full"], "--exact"]
    if h["stub"]:
        cmd += ["-Z", "stubbing"]
    cmd += list(extra)
    return cmd


def build():
    """Compile the harness crate (and /repo's current sources) once."""
    rc, out, secs, to = run(["cargo", "kani", "--only-codegen", "-Z", "stubbing"], cwd=KANI_DIR, timeout=1800,
                            env={"CARGO_TARGET_DIR": TARGET})
    if rc != 0:
        say(out[-6000:])
        say("ERROR: kani build failed")
        sys.exit(2)
    return secs


def parse(out):
    checks = [m.groupdict() for m in CHECK_RE.finditer(out)]
    verdict = None
    m = re.search(r"VERIFICATION:- (\w+)", out)
    if m:
        verdict = m.group(1)
    vt = re.search(r"Verification Time: ([\d.]+)s", out)
    return checks, verdict, float(vt.group(1)) if vt else None


def judge(h, out, rc, timed_out):
    """-> dict(result= pass|fail|inconclusive, failed=[...], ...)"""
    checks, verdict, vtime = parse(out)
    res = dict(harness=h["name"], kind=h["kind"], verdict=verdict, solver_s=vtime, n_checks=len(checks),
               unwind=h["unwind"])
    failed = [c for c in checks if c["status"] == "FAILURE"]
    covers = [c for c in checks if ".cover." in c["name"]]
    undet = [c for c in checks if c["status"] in ("UNDETERMINED", "ERROR")]
    res["failed"] = [dict(name=c["name"], desc=c["desc"], loc=c["loc"]) for c in failed]
    res["covers"] = [dict(desc=c["desc"], status=c["status"]) for c in covers]
    res["n_success"] = sum(1 for c in checks if c["status"] == "SUCCESS")
    fns = set()
    for c in checks:
        m = re.search(r"in function (.*)$", c["loc"] or "")
        if m and ("yui" in m.group(1)) and not m.group(1).startswith(h["module"]):
            fns.add(m.group(1))
    res["functions"] = sorted(fns)
    if timed_out or verdict is None or "Status: ERROR" in out or "CBMC failed" in out or "out of memory" in out.lower():
        res["result"] = "inconclusive"
        res["why"] = "timeout" if timed_out else "no verdict / solver error"
        return res
    unwind_fail = [c for c in failed if "unwinding assertion" in c["desc"]]
    if unwind_fail:
        res["result"] = "inconclusive"
        res["why"] = "unwinding assertion failed: bound too small (machinery error)"
        res["machinery_error"] = True
        return res
    if h["kind"] == "ok":
        bad_cov = [c for c in covers if c["status"] != "SATISFIED"]
        if failed or verdict != "SUCCESSFUL":
            res["result"] = "fail"
        elif undet:
            res["result"] = "inconclusive"
            res["why"] = "undetermined checks"
        elif bad_cov or not covers:
            # a cover that cannot be reached: either the code rejects valid inputs early (then some check
            # failed above) or the harness is vacuous
            res["result"] = "fail"
            res["failed"] = [dict(name="cover", desc="cover not satisfied: " + c["desc"], loc="") for c in bad_cov] or \
                            [dict(name="cover", desc="harness has no cover", loc="")]
            res["vacuity"] = True
        else:
            res["result"] = "pass"
    elif h["kind"] == "reject":
        rej = [c for c in failed if "REJECT-EXPECTED" in c["desc"]]
        if rej:
            res["result"] = "fail"
            res["failed"] = [dict(name=c["name"], desc=c["desc"], loc=c["loc"]) for c in rej]
        elif not failed:
            res["result"] = "fail"
            res["vacuity"] = True
            res["failed"] = [dict(name="reach", desc="reject harness: no panic reachable inside the call (vacuous)", loc="")]
        else:
            res["result"] = "pass"
            res["rejected_by"] = sorted({c["desc"] for c in failed})
            res["failed"] = []
    else:  # witness
        if any("WITNESS" in c["desc"] for c in failed):
            res["result"] = "pass"
            res["failed"] = []
        else:
            res["result"] = "fail"
            res["vacuity"] = True
            res["failed"] = [dict(name="witness", desc="vacuity witness did not fail", loc="")]
    return res


def run_harness(h, budget_scale=1.0):
    rc, out, secs, to = run(kani_cmd(h), cwd=KANI_DIR, timeout=h["timeout"] * budget_scale, mem_gb=h["mem"],
                            env={"CARGO_TARGET_DIR": TARGET})
    res = judge(h, out, rc, to)
    res["wall_s"] = round(secs, 2)
    if res["result"] != "pass":
        os.makedirs(os.path.join(BUILD, "logs"), exist_ok=True)
        with open(os.path.join(BUILD, "logs", h["name"] + ".log"), "w") as f:
            f.write(out)
    return res


# ------------------------------------------------------------------------------------------- replay

def extract_tests(h, want_reject):
    """Re-run the harness with concrete playback and return [(desc, fn_name, test_source)] for failed checks."""
    rc, out, secs, to = run(kani_cmd(h, ["-Z", "concrete-playback", "--concrete-playback=print"]), cwd=KANI_DIR,
                            timeout=h["timeout"] * 2, mem_gb=h["mem"], env={"CARGO_TARGET_DIR": TARGET})
    tests = []
    for m in TEST_RE.finditer(out):
        if m.group("cls") == "cover":
            continue
        if want_reject and "REJECT-EXPECTED" not in m.group("desc"):
            continue
        if "WITNESS" in m.group("desc"):
            continue
        tests.append((m.group("desc"), m.group("fn"), m.group("body")))
    return tests


def playback(h, test_fn, test_src, profiles=("dev", "release")):
    """Run one generated test natively against /repo. -> {profile: (reproduced, tail)}"""
    scratch = os.path.join(BUILD, "playback_src")
    shutil.rmtree(scratch, ignore_errors=True)
    os.makedirs(scratch)
    for item in ("Cargo.toml", "Cargo.lock", ".cargo", "src"):
        s = os.path.join(KANI_DIR, item)
        d = os.path.join(scratch, item)
        if os.path.isdir(s):
            shutil.copytree(s, d)
        else:
            shutil.copy(s, d)
    with open(os.path.join(scratch, "src", h["file"]), "a") as f:
        f.write("\n" + test_src + "\n")
    # the repo's release profile sets overflow-checks = true; mirror it for the out-of-tree crate
    with open(os.path.join(scratch, "Cargo.toml"), "a") as f:
        f.write("\n[profile.release]\noverflow-checks = true\n")
    res = {}
    for prof in profiles:
        cmd = ["cargo", "kani", "playback", "-Z", "concrete-playback"]
        if prof == "release":
            cmd += ["--release"]
        cmd += ["--", test_fn]
        rc, out, secs, to = run(cmd, cwd=scratch, timeout=1800, env={"CARGO_TARGET_DIR": PLAYBACK_TARGET})
        ran = re.search(r"test result: (\w+)\. (\d+) passed; (\d+) failed", out)
        if not ran:
            res[prof] = (None, out[-1500:])
        else:
            failed = int(ran.group(3)) > 0
            if h["kind"] == "reject":
                failed = failed and "REJECT-EXPECTED" in out
            res[prof] = (failed, out[-1500:])
    shutil.rmtree(scratch, ignore_errors=True)
    return res


def finding_key(h, f):
    fn = ""
    m = re.search(r"in function (.*)$", f.get("loc") or "")
    if m:
        fn = re.sub(r"::<.*", "", m.group(1))
    return "%s|%s|%s" % (h["name"], fn, f["desc"][:80])


def replay_file(path):
    """./check <id> --replay <file> : file is a JSON written below."""
    r = json.load(open(path))
    hs = {h["name"]: h for h in discover()}
    h = hs[r["harness"]]
    res = playback(h, r["test_fn"], r["test_src"])
    ok = any(v[0] for v in res.values())
    for p, (rep, tail) in res.items():
        say("replay[%s]: %s" % (p, "REPRODUCED" if rep else "not reproduced" if rep is not None else "could not run"))
    if ok:
        say("VIOLATION property=%s replay=%s" % (r["property"], path))
        return 1
    return 0


# ------------------------------------------------------------------------------------------- driver

def run_property(prop, tier, jobs=None, do_build=True):
    """-> (results, violations(list of dict), machinery_errors, build_s)"""
    hs = [h for h in discover() if h["prop"] == prop and (tier == "thorough" or h["tier"] == "quick")]
    if not hs:
        return [], [], [], 0.0
    build_s = build() if do_build else 0.0
    scale = 1.0 if tier == "quick" else 3.0
    jobs = jobs or min(12, os.cpu_count() or 4)
    with ThreadPoolExecutor(max_workers=jobs) as ex:
        results = list(ex.map(lambda h: run_harness(h, scale), hs))
    hmap = {h["name"]: h for h in hs}
    known = known_keys(prop)
    violations, errors = [], []
    MAX_CONFIRMED = 3   # native replay is ~20 s per test and profile: stop after this many confirmed violations
    for r in results:
        h = hmap[r["harness"]]
        if r["result"] == "inconclusive" and r.get("machinery_error"):
            errors.append("%s: %s" % (r["harness"], r["why"]))
        if r["result"] != "fail":
            continue
        if r.get("vacuity"):
            # a cover that is unreachable while nothing failed: treat as machinery error unless the code
            # under test is the reason (then an assertion failed as well and we are not here)
            errors.append("%s: %s" % (r["harness"], r["failed"][0]["desc"]))
            continue
        if len(violations) >= MAX_CONFIRMED:
            r["not_replayed"] = "replay budget: %d violations already confirmed" % len(violations)
            continue
        tests = extract_tests(h, h["kind"] == "reject")
        if not tests:
            errors.append("%s: failed but no concrete playback test was produced" % r["harness"])
            continue
        confirmed = False
        for desc, fn, src in tests[:2]:
            f = next((x for x in r["failed"] if x["desc"] == desc), dict(desc=desc, loc=""))
            key = finding_key(h, f)
            pb = playback(h, fn, src, ("dev", "release") if not violations else ("dev",))
            rep = any(v[0] for v in pb.values())
            r.setdefault("replays", []).append(dict(check=desc, key=key, reproduced={p: v[0] for p, v in pb.items()}))
            if not rep:
                continue
            confirmed = True
            if key in known:
                say("KNOWN-FINDING: property=%s %s" % (prop, known[key].get("what", key)))
                r.setdefault("known", []).append(key)
                continue
            os.makedirs(os.path.join(REPLAY_DIR, prop), exist_ok=True)
            path = os.path.join(REPLAY_DIR, prop, "%s_%s.json" % (h["name"], hashlib.sha1(src.encode()).hexdigest()[:8]))
            json.dump(dict(property=prop, engine="kani", harness=h["name"], check=desc, key=key, test_fn=fn,
                           test_src=src, reproduced={p: v[0] for p, v in pb.items()}), open(path, "w"), indent=1)
            violations.append(dict(harness=h["name"], check=desc, key=key, replay=path))
        if not confirmed:
            errors.append("%s: counterexample did not reproduce natively (encoding/harness problem)" % r["harness"])
    # vacuity problems that coincide with confirmed violations are consequences of the violation (e.g. a
    # constructor that rejects every 64-bit value makes the len==64 witness unreachable), not machinery errors
    if violations:
        errors = [e for e in errors if "vacu" not in e and "witness" not in e]
    return results, violations, errors, build_s
