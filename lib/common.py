"""Shared helpers for the /verif checks: evidence, known findings, process control."""
import json, os, sys, time, subprocess, resource, signal

VERIF = os.path.dirname(os.path.dirname(os.path.abspath(__file__)))
REPO = os.environ.get("VERIF_REPO", "/repo")
BUILD = os.path.join(VERIF, ".build")
EVIDENCE_DIR = os.path.join(VERIF, "evidence")
REPLAY_DIR = os.path.join(VERIF, "replay")
KNOWN = os.path.join(VERIF, "known_findings.jsonl")

ENV = dict(os.environ)
ENV.update({
    "CARGO_NET_OFFLINE": "true",
    "RAYON_NUM_THREADS": "1",
})


def seed():
    try:
        return int(os.environ.get("VERIF_SEED", "0"))
    except ValueError:
        return 0


def load_known():
    """known_findings.jsonl: one JSON object per line:
    {"status": "known"|"fixed", "property": "Cxx", "key": "<stable key>", "what": "...", "commit": "..."}
    Only status == "known" suppresses (and only the item with exactly that key)."""
    out = []
    if os.path.exists(KNOWN):
        for line in open(KNOWN):
            line = line.strip()
            if line and not line.startswith("#"):
                out.append(json.loads(line))
    return out


def known_keys(prop):
    return {k["key"]: k for k in load_known() if k.get("property") == prop and k.get("status") == "known"}


def write_evidence(prop, tier, level, coverage, assumptions, wall_s, violations, extra=None):
    os.makedirs(EVIDENCE_DIR, exist_ok=True)
    ev = {
        "property_id": prop,
        "tier": tier,
        "seed": seed(),
        "level": level,
        "coverage": coverage,
        "assumptions": assumptions,
        "wall_s": round(wall_s, 2),
        "violations": violations,
    }
    if extra:
        ev.update(extra)
    path = os.path.join(EVIDENCE_DIR, prop + ".json")
    tmp = path + ".tmp"
    with open(tmp, "w") as f:
        json.dump(ev, f, indent=1, sort_keys=False)
        f.write("\n")
    os.replace(tmp, path)
    return path


def _limits(mem_gb):
    def f():
        if mem_gb:
            b = int(mem_gb * (1 << 30))
            resource.setrlimit(resource.RLIMIT_AS, (b, b))
        os.setsid()
    return f


def run(cmd, cwd=None, timeout=None, mem_gb=None, env=None, stdin=None):
    """Run a command in its own process group; kill the group on timeout.
    Returns (rc, output, seconds, timed_out)."""
    t0 = time.time()
    e = dict(ENV)
    if env:
        e.update(env)
    p = subprocess.Popen(cmd, cwd=cwd, env=e, stdout=subprocess.PIPE, stderr=subprocess.STDOUT,
                         stdin=subprocess.PIPE if stdin is not None else subprocess.DEVNULL,
                         preexec_fn=_limits(mem_gb), text=True, errors="replace")
    try:
        out, _ = p.communicate(stdin, timeout=timeout)
        return p.returncode, out, time.time() - t0, False
    except subprocess.TimeoutExpired:
        try:
            os.killpg(p.pid, signal.SIGKILL)
        except ProcessLookupError:
            pass
        out, _ = p.communicate()
        return -9, out or "", time.time() - t0, True


def say(*a):
    print(*a, flush=True)
