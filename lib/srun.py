"""Engine S dispatcher (symx). Filled in below."""
from common import *

def run_property(prop, tier):
    return None

def replay_file(path):
    return 2
