"""Engine S dispatcher: builds /verif/symx against /repo's current tree (cfg yui_verif on), runs the
property's configurations in parallel shards, merges their JSON, writes replay files for violations."""
import os, json, hashlib, time, shutil
from concurrent.futures import ThreadPoolExecutor
from common import *

SYMX_DIR = os.path.join(VERIF, "symx")
TARGET = os.path.join(BUILD, "symx")
BIN = os.path.join(TARGET, "release", "symx")
S_PROPS = {"C01", "C02", "C03", "C05", "C06", "C07", "C08", "C09", "C10", "C11", "C12", "C13", "C14", "C15", "C16", "C18"}
_built = False


def build():
    global _built
    if _built:
        return 0.0
    env = {"CARGO_TARGET_DIR": TARGET, "RUSTFLAGS": "--cfg yui_verif"}
    rc, out, secs, to = run(["cargo", "build", "--release", "--offline"], cwd=SYMX_DIR, timeout=3600, env=env)
    if rc != 0:
        say(out[-8000:])
        say("ERROR: symx build failed")
        raise SystemExit(2)
    _built = True
    return secs


def has_configs(prop):
    if prop not in S_PROPS:
        return False
    rc, out, _, _ = run([BIN, "list", prop, "--tier", "thorough"], timeout=120)
    return rc == 0 and bool(out.strip())


def run_property(prop, tier):
    if prop not in S_PROPS:
        return None
    build_s = build()
    rc_l, out_l, _, _ = run([BIN, "list", prop, "--tier", "thorough"], timeout=300)
    if rc_l != 0:
        # the configurations could not even be enumerated (a panic in code they are built from): never a silent skip
        return dict(violations=[], errors=["symx list %s failed (rc %s): %s" % (prop, rc_l, (out_l or "").strip()[-300:])],
                    coverage={"summary": "configurations could not be built"}, evaluations=0, distinct=0, samples=[], rule="S: not run", assumptions=[])
    if not out_l.strip():
        return None
    shards = int(os.environ.get("SYMX_SHARDS", "14"))
    outdir = os.path.join(BUILD, "symx_out")
    os.makedirs(outdir, exist_ok=True)
    t0 = time.time()
    cap = 1500 if tier == "quick" else 4 * 3600

    def one(i):
        out = os.path.join(outdir, "%s_%s_%d.json" % (prop, tier, i))
        if os.path.exists(out):
            os.remove(out)
        rc, txt, secs, to = run([BIN, "run", prop, "--tier", tier, "--seed", str(seed()), "--shard", "%d/%d" % (i, shards), "--out", out],
                                timeout=cap, mem_gb=6)
        return i, rc, txt, to, out

    with ThreadPoolExecutor(max_workers=shards) as ex:
        rs = list(ex.map(one, range(shards)))
    errors, configs, solver = [], [], dict(queries=0, sat=0, unsat=0, unknown=0, fallback_runs=0, fallback_resolved=0, seconds=0.0)
    for i, rc, txt, to, out in rs:
        if to:
            errors.append("symx shard %d timed out after %ds" % (i, cap))
            continue
        if rc != 0 or not os.path.exists(out):
            errors.append("symx shard %d failed (rc=%s): %s" % (i, rc, txt[-600:]))
            continue
        d = json.load(open(out))
        configs += d["configs"]
        for k in solver:
            solver[k] += d["solver"].get(k, 0)
    known = known_keys(prop)
    violations = []
    samples = []
    for c in configs:
        for e in c.get("errors", []):
            errors.append("%s: %s" % (c["harness"], e))
        for v in c.get("violations", []):
            key = "%s|%s" % (c["harness"], v["what"][:70])
            if key in known:
                say("KNOWN-FINDING: property=%s %s" % (prop, known[key].get("what", key)))
                continue
            os.makedirs(os.path.join(REPLAY_DIR, prop), exist_ok=True)
            body = dict(property=prop, engine="symx", harness=c["harness"], inputs=v["inputs"], what=v["what"], key=key, seed=seed(), tier=tier)
            path = os.path.join(REPLAY_DIR, prop, "symx_%s.json" % hashlib.sha1(json.dumps(body, sort_keys=True).encode()).hexdigest()[:10])
            json.dump(body, open(path, "w"), indent=1)
            violations.append(dict(harness=c["harness"], what=v["what"], inputs=v["inputs"], key=key, replay=path))
        samples += c.pop("samples", [])[:2]
    classes = sum(c["classes"] for c in configs)
    proven = sum(c["classes_proven"] for c in configs)
    fns = sorted({f for c in configs for f in c["functions"]})
    cov = {
        "tool": "symx (concolic execution of the repo's generic code over SymInt) + z3 5.1.0 (z3-new) incremental; one-shot fallback z3-new/cvc5/z3 4.8.12; cvc5 cross-check in thorough",
        "build_s": round(build_s, 1),
        "configurations": len(configs),
        "configurations_exhaustive": sum(1 for c in configs if c["exhaustive"]),
        "classes": classes,
        "classes_proven": proven,
        "classes_unknown": sum(c["classes_unknown"] for c in configs),
        "classes_budget_exhausted": sum(c["classes_budget_exhausted"] for c in configs),
        "undecided_branch_flips": sum(c["undecided_branch_flips"] for c in configs),
        "obligations": sum(c["obligations"] for c in configs),
        "obligations_syntactic_identities": sum(c["obligations_syntactic_identities"] for c in configs),
        "solver": solver,
        "functions_encoded": fns,
        "per_configuration": configs,
        "summary": "%d configs (%d with complete path tree), %d classes, %d proven, %d unknown; %d queries (%d unsat, %d sat, %d unknown), solver %.1fs, wall %.1fs" % (
            len(configs), sum(1 for c in configs if c["exhaustive"]), classes, proven, sum(c["classes_unknown"] for c in configs),
            solver["queries"], solver["unsat"], solver["sat"], solver["unknown"], solver["seconds"], time.time() - t0),
    }
    return dict(
        violations=violations, errors=errors, coverage=cov, evaluations=classes, distinct=proven, samples=samples[:8],
        rule=("S: one evaluation = one path class (set of all inputs within the stated bounds that take the same decisions at every "
              "scalar test), executed once on a solver-chosen member by running the repo's generic code over the symbolic scalar; "
              "non-trivial/distinct = classes whose obligations were discharged (syntactically or by an unsat answer); class hashes are deduplicated"),
        assumptions=[
            "S/A1: one rayon worker thread; thread schedules are not explored",
            "S/A2: scalars are mathematical integers (BigInt semantics); machine-width overflow is only covered where a Kani harness says so",
            "S/A4: shapes, diagrams, flag subsets, pivot strategies are enumerated configurations (listed per configuration); entries / parameters are symbolic within the stated box",
            "S/A5: hash-iteration order is whatever the run saw; a run that does not reproduce its expected path prefix is counted as a divergence and voids the exhaustive flag",
            "S/A6: z3, cvc5, rustc, nalgebra, sprs, num-bigint trusted; 'exhaustive' = path tree complete (every flipped branch explored or unsat), not an unbounded proof",
        ])


def replay_file(path):
    build()
    r0 = json.load(open(path))
    rc, out, _, _ = run([BIN, "replay", path, "--seed", str(r0.get("seed", seed()))], timeout=1800)
    say(out.strip())
    r = json.load(open(path))
    if rc == 1:
        say("VIOLATION property=%s replay=%s" % (r["property"], path))
        return 1
    return 0 if rc == 0 else 2
