#!/usr/bin/env python3
"""Regenerates /verif/MANIFEST.json from the table below (single source of truth for the interface)."""
import json, os
V = os.path.dirname(os.path.dirname(os.path.abspath(__file__)))

NA = [
 ("C04", "jones_polynomial is monomorphic (LPoly<'q',i32>) over a diagram walked through HashSet-based components(); Kani cannot execute hashbrown paths within reach (probe: 15 min timeout on one symbolic crossing) and there is no scalar for the concolic engine; running it on a list of diagrams would be differential testing, a different technique"),
 ("C19", "only characteristic-2 concrete coefficient types are admitted (FF2, Poly<H,FF2>): a 4-point scalar domain; every quantifier that matters (diagram, crossing order, symmetric numbering) is structural and hash-container bound, out of reach of both solver engines"),
 ("C20", "finite option product x textual inputs observed through process exit status and stdout (clap, regex, file loading, catch_unwind, prettytable); outside what CBMC can execute, no scalar for the concolic engine; covering the product is enumeration, a different technique"),
]

S_NOTE = ("Trusted: z3 5.1.0 / cvc5 / z3 4.8.12, rustc, nalgebra, sprs, num-bigint. Scalars are mathematical integers (BigInt semantics). One rayon worker: "
          "thread schedules are not explored. Shapes/flags/strategies are enumerated configurations; entries are symbolic inside the stated box. "
          "'exhaustive' in the evidence means the path tree of a configuration is complete (every branch flip explored or unsat), a bounded claim. ")

KH_NOTE = ("Diagrams, move histories and the crossing order are enumerated configurations (catalogue: kinks, Hopf, trefoil, figure-8, trefoil+kink, "
           "5_1..6_3, L4a1, L5a1 and their mirrors; moves: R1 x4 variants, renumbering, reordering, orientation reversal, braid relations, conjugation, "
           "Markov stabilisation, far commutation); what is symbolic is the pair (h,t) (resp. h, or the prime c) inside the stated box. Hash-iteration order of the "
           "builder makes control flow nondeterministic: runs that do not reproduce their expected path prefix are counted as divergences and void the "
           "'exhaustive' flag of that configuration (assumption A5). F2/F3 and polynomial coefficient rings are concrete types: they are executed at the class's residues only. ")

CHECKS = {
 "C01": dict(engine="S", category="model_checking",
   technique="concolic symbolic execution of KhComplex::new (v2 tangle/cobordism builder) + ChainReducer + HomologyCalc over a symbolic integer scalar and over Ratio of it, with symbolic (h,t); per path class the reported rank/torsion is compared (z3) with an independent cube-of-resolutions reference complex reduced by a reference Smith form under the same path; kernel obligation: closed dotted genus-g surfaces evaluate to eps((2X-h)^g X^x (X-h)^y)",
   text="For each catalogue diagram (and mirror, reduced/unreduced, Z and Q) the whole engine runs once per path class of (h,t); the class's obligations (equal free rank, pairwise associate torsion factors in every degree) are discharged by unsat answers. The reference is ~250 lines independent of yui-link/yui-kh (own orientation walk, own circle counting, own Frobenius algebra maps, own sign rule).",
   note=S_NOTE + KH_NOTE, design="5/C01"),
 "C02": dict(engine="S", category="model_checking",
   technique="concolic symbolic execution of KhHomology::new on pairs of diagrams of the same link with the same symbolic (h,t): per path class the two results must be isomorphic (z3); mirror pairs: free part i <-> -i, torsion i <-> 1-i, and the bigraded statement on the class h=t=0",
   text="Pairs come from diagram moves implemented in the harness on PD codes / braid words; the solver decides (h,t); the move history is sampled (seeded), length <= 2.",
   note=S_NOTE + KH_NOTE, design="5/C02"),
 "C03": dict(engine="S", category="model_checking",
   technique="concolic symbolic execution of KhHomology over Z and over Q with the same symbolic (h,t); F2 and F3 runs at the class's residues (h mod 6, t mod 6 pinned by a recorded concretisation); universal-coefficient identities checked per class; on the class h=t=0 the two bigraded routes and the F2 reduced/unreduced relation",
   text="rank_Q = free rank_Z; dim_Fp(i) = rank(i) + #p-torsion(i) + #p-torsion(i+1) for p = 2, 3 at every (h,t) of the box (general (h,t) produce 2-, 3- and 9-torsion that h=t=0 does not).",
   note=S_NOTE + KH_NOTE + "Outside: coprime torsion in one degree, i128/BigInt machine instantiations.", design="5/C03"),
 "C05": dict(engine="S", category="model_checking",
   technique="concolic symbolic execution of KhComplex::new with UNBOUNDED symbolic (h,t): every entry of d_{i+1} d_i is a polynomial in (h,t) that must vanish on the class (syntactic identity or z3); complex over Z[H,T] (Poly2 over the symbolic integer): q-homogeneity of every entry, evaluation at the symbolic point and comparison of homology with the direct build (z3, reference Smith form under the same path)",
   text="(a) d∘d=0 and h-degree over Z for all integers (h,t) per explored class; (b) every non-zero entry c H^a T^b of the Z[H,T] complex from x to y satisfies q(y)-q(x)=2a+4b; (c) the Z[H,T] complex evaluated at (h,t) in a box has the homology of the complex built at (h,t).",
   note=S_NOTE + KH_NOTE, design="5/C05"),
 "C06": dict(engine="S", category="model_checking",
   technique="concolic symbolic execution of canon_cycles / KhHomology / ss_invariant with symbolic h (t=0) resp. symbolic prime c in {2,3,5,7} (solver-side primality constraint): cycles of degree 0, non-torsion classes for h != 0 (z3), Lee rank 2^components, ss equal across diagram pairs and reduced/unreduced, negated by mirror, crossing-change inequality",
   text="ss(K-) <= ss(K+) <= ss(K-)+2 is checked for every crossing of every catalogue knot, the crossing switch being done on the PD code in the harness.",
   note=S_NOTE + KH_NOTE + "Outside: c = H over F2[H]/F3[H]/Q[H] (concrete types), knots > 6 crossings.", design="5/C06"),
 "C07": dict(engine="S", category="model_checking",
   technique="concolic symbolic execution of HomologyCalc (generic code instantiated with a symbolic integer scalar, also Z[i], Z[omega], Q) ; path classes discharged by z3 (SMT, NIA) under the solver-side precondition d2*d1=0; reference rank/torsion from minors and gcds of minors",
   text="All entries of (d1,d2) are symbolic within a box and constrained by d2*d1=0 in the solver; every path class of HomologyCalc::calculate is run once on a solver-chosen member and its obligations (rank formula, torsion ~ gcd-of-minors factors, generators are cycles, boundaries map to 0 modulo torsion orders, coordinates of generators are the standard basis) are proven for the whole class by an unsat answer. Small shapes are explored to a complete path tree.",
   note=S_NOTE + "Outside: F_p, Q[x], F_p[x] (concrete types), machine-width effects, middle dimension > 3.",
   design="5/C07"),
 "C08": dict(engine="S", category="model_checking",
   technique="concolic symbolic execution of ChainReducer (reduce_all shallow+deep, reduce_at_spec for all 8 pivot strategies, tracked vectors) over a symbolic integer scalar; identities f d = d' f, d b = b d', f b = I, d'd' = 0 and homology preservation discharged per path class by z3",
   text="Complexes of length 2-4 with symbolic entries in [-2,2] (units, zero and non-units all occur) under the solver-side constraint d∘d=0; each path class's chain-map / identity / homology-preservation obligations are proven by unsat answers.",
   note=S_NOTE + "Single worker schedule only: 'for every thread schedule' is NOT decided. |x| of unit candidates is concretised by c_weight (classes split per value). Outside: F_p.",
   design="5/C08"),
 "C09": dict(engine="S", category="model_checking",
   technique="concolic symbolic execution of snf (generic elimination path) over symbolic Z, Z[i], Z[omega], Q entries; certificates D=PAQ, PP^-1=I, QQ^-1=I, A=P^-1 D Q^-1, diagonal/normalised/divisibility chain discharged per path class by z3 (NIA with division lemmas)",
   text="Every entry symbolic within a box; shapes up to 3x3, all-transform flags plus flag subsets, diagonal-input configurations for the divisibility-chain normalisation. By uniqueness of the Smith form the certificates determine D up to units. The exact div_round kernel the quadratic rings depend on is decided separately at machine width by Kani (C15).",
   note=S_NOTE + "Outside: entries beyond the box, shapes beyond 3x3 (4x4 diagonal in thorough), F_p, polynomial rings. The LLL-preprocessed path (TypeId dispatch for i64/BigInt/...) is executed only in the BigInt replay of counterexamples, not symbolically.",
   design="5/C09"),
 "C10": dict(engine="S", category="model_checking",
   technique="concolic symbolic execution of lll_hnf and lll over symbolic Z, Z[i], Z[omega] entries; H=PA, PP^-1=I, echelon form, normalised pivots, norm bound above pivots; LLL: B=PA, det P unit, size-reduced and Lovasz in fraction-free Gram form; discharged per path class by z3",
   text="Rows independent (Gram determinant != 0) is a solver-side precondition for lll. Shapes up to 3x2/2x3 quick.",
   note=S_NOTE + "Many LLL configurations stop on the time budget (high-degree NIA): evidence says which are complete. Outside: entries beyond the box (reduced to C15's kernel), m > 3 (so LLL defects that need 4 rows are out of reach).",
   design="5/C10"),
 "C11": dict(engine="S", category="model_checking",
   technique="concolic symbolic execution of find_pivots / perms_by_pivots / permute (the real multithread code path on one worker) over symbolic entries: sparsity and unit patterns are decided by the solver; validity of the pivot list discharged per path class by z3",
   text="SEQUENTIAL SCHEDULE ONLY. Entries symbolic in [-2,2] or [-1,1], shapes up to 3x3 (thorough 3x4), {Rows,Cols} x {One,AnyUnit,Weight(1),Weight(2)}: distinct rows/cols, pivot entries are units, triangular leading block (directly and through perms_by_pivots+permute), no panic.",
   note=S_NOTE + "NOT decided: 'for every interleaving of worker threads' (no schedule-point hook installed; Kani has no threads and cannot pass AHashSet). A fault that needs a foreign commit inside the snapshot-to-write-lock window is invisible to this check.",
   design="5/C11"),
 "C12": dict(engine="K+S", category="model_checking",
   technique="Kani/CBMC (SAT) on UnionFind (4 symbolic unions on 5 elements vs a label-array reference); concolic symbolic execution of solve_triangular(_left,_vec), inv_triangular, Schur::from_partial_triangular and dir_sum_decomp over symbolic entries in Z, Z[i] and Q (unit diagonal as solver-side precondition), with explicitly stored zeros; A X = Y, S = D - C A^-1 B, F M B = S, F B = I, block-sum identity discharged per class by z3",
   text="Each kernel is called twice per run on the same worker so the thread-local scratch buffer must return to zero (debug assertions are compiled in). Upper and lower, r in 0..3, stored-zero variants, units other than +-1 through Z[i] and Q.",
   note=S_NOTE + "Outside: equality across thread counts; matrices beyond 4x4, except one tall-thin dir_sum_decomp input (17x2, thorough also 25x3: a long column next to a 2- or 3-entry column); UnionFind is exercised only through dir_sum_decomp.",
   design="5/C12"),
 "C13": dict(engine="S", category="model_checking",
   technique="concolic symbolic execution of SpMat/SpVec/Mat operations and Trans sequences over symbolic integer entries (loop-free in the scalars: classes are zero patterns), compared entrywise with a naive Vec<Vec<term>> reference; polynomial identities normalise syntactically, the rest is discharged by z3",
   text="Shapes 0..3, all permutations, all sub-ranges, all split points, stored-zero variants (raw column construction and A-A), Trans built two ways, before and after reduce(), sub() with proper, full-length reordered and repeated index lists.",
   note=S_NOTE + "Outside: F_p, Q; dimension > 3; structural equality of CSC storage.",
   design="5/C13"),
 "C14": dict(engine="K+S", category="model_checking",
   technique="Kani/CBMC (SAT) on FF<3,5,7>, FF2 (all operator forms, all i32 inputs), Ratio<i32>::new, Ratio<i64>::cmp at full width; concolic symbolic execution + z3 on Ratio over the symbolic integer (ring operations in all forms, canonical form, ==, exact order of Q) and on QuadInt<_,D> ring axioms for D in {-1,-3,2,5,-2}",
   text="K decides the machine-width kernels; S decides the generic Ratio / QuadInt code over mathematical integers (Ratio: numerators and denominators in a box, QuadInt: box 1000, identities syntactic).",
   note="Trusted: Kani, CBMC, cadical, z3. Ratio<i32> +,-,* from two symbolic operands did not finish under Kani (decided by S instead). BigInt itself is a dependency.",
   design="5/C14"),
 "C15": dict(engine="K+S", category="model_checking",
   technique="Kani/CBMC (SAT): div_round on i32/i64 (definition at 10 bits, reference at full width for constant divisors incl. extremes), unit API incl. MIN, generic gcd/gcdx/lcm at FF<3>, FF<5>, num-integer gcd bounded; concolic + z3: exact div_round over Z (box 10^6), generic gcd/gcdx/lcm over the symbolic integer, Gauss/Eisenstein division lemma, gcd contract, normalising units",
   text="One harness per concrete instantiation (K); S executes the repo's generic Euclidean code over a symbolic integer and over GaussInt/EisenInt of it.",
   note="Trusted: Kani, CBMC, cadical, z3. Symbolic x symbolic div_round beyond 10 bits did not finish in K (multiplier equivalence); Q[x], F_p[x] division not covered.",
   design="5/C15"),
 "C16": dict(engine="K+S", category="model_checking",
   technique="Kani/CBMC (SAT): Var/Var2/Var3 monomial orders (usize and isize exponents) are the lexicographic / graded-lex orders on exponent tuples, total, compatible with multiplication; HPoly ring operations, zero-insensitive equality, F_3[x] division; concolic + z3: Poly, LPoly, Poly2 arithmetic with symbolic coefficients vs reference term arithmetic, no stored zero coefficient, eval is a ring homomorphism, MultiDeg with symbolic exponents",
   text="Supports (exponent templates) are enumerated, coefficients symbolic; cancellation is a branch, so vanishing sums/products are explored as classes.",
   note="Trusted: Kani, CBMC, cadical, z3. Outside: dozens of terms, F_p coefficients, Poly3/PolyN arithmetic, Lc over non-monomial generators. Var3 multiplication compatibility only in thorough (1800 s).",
   design="5/C16"),
 "C17": dict(engine="K", category="model_checking",
   technique="bounded model checking of the compiled Rust (Kani/CBMC, SAT): one inductive step from an arbitrary valid (val,len) state per operation vs a u128/list specification, full 64-bit width",
   text="Every public BitSeq operation is executed once from an arbitrary valid state (all 2^64 values x all 65 lengths, symbolic arguments) and compared with the list-of-bits specification; out-of-capacity/out-of-range calls must not return. The SAT solver decides each harness for all inputs; unwinding assertions on (unwind 66-68 covers the 64-step loops). One inductive step from any valid state covers operation histories of any length because validity of the result is asserted.",
   note="Trusted: Kani 0.68 MIR->goto translation, CBMC 6.11, cadical. Ord harness replaces BitSeq::weight by popcount (stub), justified by c17_weight at full width; an unstubbed twin covers len <= 12. FromStr/Display and generate(len>3) are outside (string formatting / 2^len loop). Rejection = any panic (assert or overflow check, as in both repo profiles).",
   design="5/C17"),
 "C18": dict(engine="K+S", category="model_checking",
   technique="bounded model checking of the compiled Rust (Kani/CBMC, SAT) of the per-crossing kernel: Crossing::{pass,resolve,resolved,mirror,arcs,is_resolved} with symbolic type and edges, braid Generator",
   text="PER-CROSSING KERNEL ONLY: pass is a fixed-point-free involution matching the strand picture of each type; resolution table; mirror is an involution preserving edges and pass.",
   note="NOT solver-decided: components, crossing signs, writhe, circle counts, Seifert circles, braid closure - they walk the diagram through HashSet/HashMap (not executable in Kani within reach, no scalar for the concolic engine). As an AUXILIARY, concrete part the S runner compares them on the catalogue diagrams, renumbered / rotated copies, all resolution states, partial resolutions, diagrams with two and three over-only components, conjugated braid words and EVERY braid word up to a length (2 strands <= 10 letters, 3 <= 7, 4 <= 5, 5 <= 5) against an independent reference (strand-relation union-find, orientation walk with all admissible orientations of over-only components, circle counts, permutation cycles); these comparisons involve no symbolic variable and are labelled 'linkfacts' in the evidence.",
   design="5/C18"),
}

def main():
    checks = []
    for pid in sorted(CHECKS):
        c = CHECKS[pid]
        checks.append({
            "property_id": pid,
            "quick_cmd": "./check %s --tier quick" % pid,
            "thorough_cmd": "./check %s --tier thorough" % pid,
            "evidence_file": "/verif/evidence/%s.json" % pid,
            "replay_cmd_template": "./check %s --replay {path}" % pid,
            "engine": c["engine"],
            "level_claimed": {"category": c["category"], "text": c["text"], "design_ref": c["design"]},
            "level_note": c["note"],
            "technique": c["technique"],
        })
    m = {
        "version": 1,
        "setup_cmd": "./setup.sh",
        "hooks": {
            "guard": "cfg(yui_verif)",
            "enable": "RUSTFLAGS='--cfg yui_verif' (set by the symx build in ./check; Kani harnesses need no hook)",
            "baseline_off_cmd": "cd /repo && cargo test --workspace --no-fail-fast --offline",
            "source_commits": ["af956f3", "031991a"],
            "add_only": True,
        },
        "engines": [
            {"name": "K", "path": "/verif/kani", "serves_properties": sorted(p for p in CHECKS if "K" in CHECKS[p]["engine"]),
             "kind_free_text": "Kani 0.68 / CBMC 6.11 proof harnesses over kani::any() inputs against /repo (path dependency), run by lib/krun.py"},
            {"name": "S", "path": "/verif/symx", "serves_properties": sorted(p for p in CHECKS if "S" in CHECKS[p]["engine"]),
             "kind_free_text": "symx: concolic execution of the repo's generic code instantiated with a symbolic scalar (BigInt shadow + polynomial term), path conditions discharged by z3 (cvc5 cross-check), closing exhaustiveness query"},
        ],
        "checks": checks,
        "not_applicable": [{"property_id": p, "reason": r} for p, r in NA],
        "notes": "All claims are bounded; see DESIGN.md for bounds per property. known_findings.jsonl lists fixed/known findings.",
    }
    json.dump(m, open(os.path.join(V, "MANIFEST.json"), "w"), indent=1)
    print("MANIFEST.json written:", len(checks), "checks")

if __name__ == "__main__":
    main()
