#!/usr/bin/env python3
"""Regenerates /verif/MANIFEST.json from the table below (single source of truth for the interface)."""
import json, os
V = os.path.dirname(os.path.dirname(os.path.abspath(__file__)))

NA = [
 ("C04", "jones_polynomial is monomorphic (LPoly<'q',i32>) over a diagram walked through HashSet-based components(); Kani cannot execute hashbrown paths within reach (probe: 15 min timeout on one symbolic crossing) and there is no scalar for the concolic engine; running it on a list of diagrams would be differential testing, a different technique"),
 ("C19", "only characteristic-2 concrete coefficient types are admitted (FF2, Poly<H,FF2>): a 4-point scalar domain; every quantifier that matters (diagram, crossing order, symmetric numbering) is structural and hash-container bound, out of reach of both solver engines"),
 ("C20", "finite option product x textual inputs observed through process exit status and stdout (clap, regex, file loading, catch_unwind, prettytable); outside what CBMC can execute, no scalar for the concolic engine; covering the product is enumeration, a different technique"),
]

S_NOTE = ("Trusted: z3 5.1.0 / cvc5 / z3 4.8.12, rustc, nalgebra, sprs, num-bigint. Scalars are mathematical integers (BigInt semantics). One rayon worker: "
          "thread schedules are not explored. Shapes/flags/strategies are enumerated configurations; entries are symbolic inside the stated box. "
          "'exhaustive' in the evidence means the path tree of a configuration is complete (every branch flip explored or unsat), a bounded claim. ")

CHECKS = {
 "C07": dict(engine="S", category="model_checking",
   technique="concolic symbolic execution of HomologyCalc (generic code instantiated with a symbolic integer scalar, also Z[i], Z[omega]); path classes discharged by z3 (SMT, NIA) under the solver-side precondition d2*d1=0; reference rank/torsion from minors and gcds of minors",
   text="All entries of (d1,d2) are symbolic within a box and constrained by d2*d1=0 in the solver; every path class of HomologyCalc::calculate is run once on a solver-chosen member and its obligations (rank formula, torsion ~ gcd-of-minors factors, generators are cycles, boundaries map to 0 modulo torsion orders, coordinates of generators are the standard basis) are proven for the whole class by an unsat answer. Small shapes are explored to a complete path tree.",
   note=S_NOTE + "Outside: F_p, Q[x], F_p[x] (concrete types), Q (no symbolic rational scalar), machine-width effects, middle dimension > 3.",
   design="5/C07"),
 "C08": dict(engine="S", category="model_checking",
   technique="concolic symbolic execution of ChainReducer (reduce_all shallow+deep, reduce_at_spec for all 8 pivot strategies, tracked vectors) over a symbolic integer scalar; identities f d = d' f, d b = b d', f b = I, d'd' = 0 and homology preservation discharged per path class by z3",
   text="Complexes of length 2-4 with symbolic entries in [-2,2] (units, zero and non-units all occur) under the solver-side constraint d∘d=0; each path class's chain-map / identity / homology-preservation obligations are proven by unsat answers.",
   note=S_NOTE + "Single worker schedule only: 'for every thread schedule' is NOT decided. |x| of unit candidates is concretised by c_weight (classes split per value). Outside: Q, F_p, Z[H].",
   design="5/C08"),
 "C09": dict(engine="S", category="model_checking",
   technique="concolic symbolic execution of snf (generic elimination path) over symbolic Z, Z[i], Z[omega] entries; certificates D=PAQ, PP^-1=I, QQ^-1=I, A=P^-1 D Q^-1, diagonal/normalised/divisibility chain discharged per path class by z3 (NIA with division lemmas)",
   text="Every entry symbolic within a box; shapes up to 3x3 (quick <= 2x3), all-transform flags plus flag subsets. By uniqueness of the Smith form the certificates determine D up to units. The f64-free exact div_round kernel the quadratic rings depend on is decided separately at machine width by Kani (C15).",
   note=S_NOTE + "Outside: entries beyond the box, shapes beyond 3x3, F_p, Q, polynomial rings. The LLL-preprocessed path (TypeId dispatch) is reached through hook H1 only in the lll variants.",
   design="5/C09"),
 "C10": dict(engine="S", category="model_checking",
   technique="concolic symbolic execution of lll_hnf and lll over symbolic Z, Z[i], Z[omega] entries; H=PA, PP^-1=I, echelon form, normalised pivots, norm bound above pivots; LLL: B=PA, det P unit, size-reduced and Lovasz in fraction-free Gram form; discharged per path class by z3",
   text="Rows independent (Gram determinant != 0) is a solver-side precondition for lll. Shapes up to 3x2/2x3 quick.",
   note=S_NOTE + "Many LLL configurations stop on the time budget (high-degree NIA): evidence says which are complete. Outside: entries beyond the box (reduced to C15's kernel), m > 3.",
   design="5/C10"),
 "C11": dict(engine="S", category="model_checking",
   technique="concolic symbolic execution of find_pivots / perms_by_pivots / permute (the real multithread code path on one worker) over symbolic entries: sparsity and unit patterns are decided by the solver; validity of the pivot list discharged per path class by z3",
   text="SEQUENTIAL SCHEDULE ONLY. Entries symbolic in [-2,2] or [-1,1], shapes up to 3x3 (thorough 3x4), {Rows,Cols} x {One,AnyUnit,Weight(1),Weight(2)}: distinct rows/cols, pivot entries are units, triangular leading block (directly and through perms_by_pivots+permute).",
   note=S_NOTE + "NOT decided: 'for every interleaving of worker threads' (no schedule-point hook installed; Kani has no threads and cannot pass AHashSet). A fault that needs a foreign commit inside the snapshot-to-write-lock window is invisible to this check.",
   design="5/C11"),
 "C12": dict(engine="S", category="model_checking",
   technique="concolic symbolic execution of solve_triangular(_left,_vec), inv_triangular, Schur::from_partial_triangular and dir_sum_decomp over symbolic entries (unit diagonal as solver-side precondition u^2=1), with explicitly stored zeros; A X = Y, S = D - C A^-1 B, F M B = S, F B = I, block-sum identity discharged per class by z3",
   text="Each kernel is called twice per run on the same worker so the thread-local scratch buffer must return to zero (debug assertions are compiled in). Upper and lower, r in 0..3, stored-zero variants.",
   note=S_NOTE + "Outside: equality across thread counts; unit diagonals other than +-1 (Q, F_p, Z[i]); UnionFind is exercised only through dir_sum_decomp.",
   design="5/C12"),
 "C13": dict(engine="S", category="model_checking",
   technique="concolic symbolic execution of SpMat/SpVec/Mat operations and Trans sequences over unbounded symbolic integer entries (loop-free in the scalars: classes are zero patterns), compared entrywise with a naive Vec<Vec<term>> reference; polynomial identities normalise syntactically, the rest is discharged by z3",
   text="Entries are unbounded symbolic integers; shapes 0..3, all permutations, all sub-ranges, all split points, stored-zero variants (raw column construction and A-A), Trans built two ways, before and after reduce(), sub().",
   note=S_NOTE + "Outside: F_p, Q; dimension > 3; structural equality of CSC storage.",
   design="5/C13"),
 "C14": dict(engine="K", category="model_checking",
   technique="bounded model checking of the compiled Rust (Kani/CBMC, SAT): FF<3,5,7>, FF2 ring operations in every by-value/by-ref/assign form vs (a op b) mod p on all i32 inputs; Ratio<i32>::new canonical form; Ratio<i64>::cmp vs exact order at full width",
   text="F_p and F2: all operands (any i32 / i64 input to the constructor), all operator forms. Ratio: canonical representative after new() on bounded operands, order on integers at full 64-bit width and on unit-fraction operands < 2^31.",
   note="Trusted: Kani, CBMC, cadical. Ratio<i32> +,-,* from two symbolic operands did not finish under Kani and are outside this check's K part. BigInt itself is a dependency.",
   design="5/C14"),
 "C15": dict(engine="K", category="model_checking",
   technique="bounded model checking of the compiled Rust (Kani/CBMC, SAT): div_round on i32 (10-bit symbolic x symbolic vs the definition; full width vs reference) and i64 (full-width dividend x constant divisors incl. extremes), unit API of i32/i64 incl. MIN, generic gcd/gcdx/lcm of euc_ring.rs instantiated at FF<3>, FF<5>, num-integer gcd/gcdx/lcm bounded",
   text="One harness per concrete instantiation; unwinding assertions on.",
   note="Trusted: Kani, CBMC, cadical. Symbolic x symbolic div_round beyond 10 bits did not finish (multiplier equivalence); a full-width symbolic divisor against constant dividends did not finish in 1200 s.",
   design="5/C15"),
 "C17": dict(engine="K", category="model_checking",
   technique="bounded model checking of the compiled Rust (Kani/CBMC, SAT): one inductive step from an arbitrary valid (val,len) state per operation vs a u128/list specification, full 64-bit width",
   text="Every public BitSeq operation is executed once from an arbitrary valid state (all 2^64 values x all 65 lengths, symbolic arguments) and compared with the list-of-bits specification; out-of-capacity/out-of-range calls must not return. The SAT solver decides each harness for all inputs; unwinding assertions on (unwind 66-68 covers the 64-step loops). One inductive step from any valid state covers operation histories of any length because validity of the result is asserted.",
   note="Trusted: Kani 0.68 MIR->goto translation, CBMC 6.11, cadical. Ord harness replaces BitSeq::weight by popcount (stub), justified by c17_weight at full width; an unstubbed twin covers len <= 12. FromStr/Display and generate(len>3) are outside (string formatting / 2^len loop). Rejection = any panic (assert or overflow check, as in both repo profiles).",
   design="5/C17"),
}

def main():
    checks = []
    for pid in sorted(CHECKS):
        c = CHECKS[pid]
        checks.append({
            "property_id": pid,
            "quick_cmd": "./check %s --tier quick" % pid,
            "thorough_cmd": "./check %s --tier thorough" % pid,
            "evidence_file": "/verif/evidence/%s.json" % pid,
            "replay_cmd_template": "./check %s --replay {path}" % pid,
            "engine": c["engine"],
            "level_claimed": {"category": c["category"], "text": c["text"], "design_ref": c["design"]},
            "level_note": c["note"],
            "technique": c["technique"],
        })
    m = {
        "version": 1,
        "setup_cmd": "./setup.sh",
        "hooks": {
            "guard": "cfg(yui_verif)",
            "enable": "RUSTFLAGS='--cfg yui_verif' (set by the symx build in ./check; Kani harnesses need no hook)",
            "baseline_off_cmd": "cd /repo && cargo test --workspace --no-fail-fast --offline",
            "source_commits": ["af956f3", "031991a"],
            "add_only": True,
        },
        "engines": [
            {"name": "K", "path": "/verif/kani", "serves_properties": sorted(p for p in CHECKS if "K" in CHECKS[p]["engine"]),
             "kind_free_text": "Kani 0.68 / CBMC 6.11 proof harnesses over kani::any() inputs against /repo (path dependency), run by lib/krun.py"},
            {"name": "S", "path": "/verif/symx", "serves_properties": sorted(p for p in CHECKS if "S" in CHECKS[p]["engine"]),
             "kind_free_text": "symx: concolic execution of the repo's generic code instantiated with a symbolic scalar (BigInt shadow + polynomial term), path conditions discharged by z3 (cvc5 cross-check), closing exhaustiveness query"},
        ],
        "checks": checks,
        "not_applicable": [{"property_id": p, "reason": r} for p, r in NA],
        "notes": "All claims are bounded; see DESIGN.md for bounds per property. known_findings.jsonl lists fixed/known findings.",
    }
    json.dump(m, open(os.path.join(V, "MANIFEST.json"), "w"), indent=1)
    print("MANIFEST.json written:", len(checks), "checks")

if __name__ == "__main__":
    main()
