#!/usr/bin/env python3
"""Regenerates /verif/MANIFEST.json from the table below (single source of truth for the interface)."""
import json, os
V = os.path.dirname(os.path.dirname(os.path.abspath(__file__)))

NA = [
 ("C04", "jones_polynomial is monomorphic (LPoly<'q',i32>) over a diagram walked through HashSet-based components(); Kani cannot execute hashbrown paths within reach (probe: 15 min timeout on one symbolic crossing) and there is no scalar for the concolic engine; running it on a list of diagrams would be differential testing, a different technique"),
 ("C19", "only characteristic-2 concrete coefficient types are admitted (FF2, Poly<H,FF2>): a 4-point scalar domain; every quantifier that matters (diagram, crossing order, symmetric numbering) is structural and hash-container bound, out of reach of both solver engines"),
 ("C20", "finite option product x textual inputs observed through process exit status and stdout (clap, regex, file loading, catch_unwind, prettytable); outside what CBMC can execute, no scalar for the concolic engine; covering the product is enumeration, a different technique"),
]

CHECKS = {
 "C17": dict(engine="K", category="model_checking",
   technique="bounded model checking of the compiled Rust (Kani/CBMC, SAT): one inductive step from an arbitrary valid (val,len) state per operation vs a u128/list specification, full 64-bit width",
   text="Every public BitSeq operation is executed once from an arbitrary valid state (all 2^64 values x all 65 lengths, symbolic arguments) and compared with the list-of-bits specification; out-of-capacity/out-of-range calls must not return. The SAT solver decides each harness for all inputs; unwinding assertions on (unwind 66-68 covers the 64-step loops). One inductive step from any valid state covers operation histories of any length because validity of the result is asserted.",
   note="Trusted: Kani 0.68 MIR->goto translation, CBMC 6.11, cadical. Ord harness replaces BitSeq::weight by popcount (stub), justified by c17_weight at full width; an unstubbed twin covers len <= 12. FromStr/Display and generate(len>3) are outside (string formatting / 2^len loop). Rejection = any panic (assert or overflow check, as in both repo profiles).",
   design="5/C17"),
}

def main():
    checks = []
    for pid in sorted(CHECKS):
        c = CHECKS[pid]
        checks.append({
            "property_id": pid,
            "quick_cmd": "./check %s --tier quick" % pid,
            "thorough_cmd": "./check %s --tier thorough" % pid,
            "evidence_file": "/verif/evidence/%s.json" % pid,
            "replay_cmd_template": "./check %s --replay {path}" % pid,
            "engine": c["engine"],
            "level_claimed": {"category": c["category"], "text": c["text"], "design_ref": c["design"]},
            "level_note": c["note"],
            "technique": c["technique"],
        })
    m = {
        "version": 1,
        "setup_cmd": "./setup.sh",
        "hooks": {
            "guard": "cfg(yui_verif)",
            "enable": "RUSTFLAGS='--cfg yui_verif' (set by the symx build in ./check; Kani harnesses need no hook)",
            "baseline_off_cmd": "cd /repo && cargo test --workspace --no-fail-fast --offline",
            "source_commits": [],
            "add_only": True,
        },
        "engines": [
            {"name": "K", "path": "/verif/kani", "serves_properties": sorted(p for p in CHECKS if "K" in CHECKS[p]["engine"]),
             "kind_free_text": "Kani 0.68 / CBMC 6.11 proof harnesses over kani::any() inputs against /repo (path dependency), run by lib/krun.py"},
            {"name": "S", "path": "/verif/symx", "serves_properties": sorted(p for p in CHECKS if "S" in CHECKS[p]["engine"]),
             "kind_free_text": "symx: concolic execution of the repo's generic code instantiated with a symbolic scalar (BigInt shadow + polynomial term), path conditions discharged by z3 (cvc5 cross-check), closing exhaustiveness query"},
        ],
        "checks": checks,
        "not_applicable": [{"property_id": p, "reason": r} for p, r in NA],
        "notes": "All claims are bounded; see DESIGN.md for bounds per property. known_findings.jsonl lists fixed/known findings.",
    }
    json.dump(m, open(os.path.join(V, "MANIFEST.json"), "w"), indent=1)
    print("MANIFEST.json written:", len(checks), "checks")

if __name__ == "__main__":
    main()
