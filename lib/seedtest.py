#!/usr/bin/env python3
"""seedtest.py <prop> <seed_src_dir> <name>  — confirm a seeded change in a scratch worktree (tests pass, demo fails with /
passes without), then run the property's quick check against /repo with the patch applied, and store everything under
/verif/seeded/<name>/ (patch.diff, demo, meta.json)."""
import os, re, sys, json, shutil, subprocess, time
prop, src, name = sys.argv[1], sys.argv[2], sys.argv[3]
extra_checks = sys.argv[4:]  # other properties whose checks should also be tried
V = "/verif"
WT = "/tmp/sw_" + name
TGT = "/tmp/seed_target"
env = dict(os.environ, CARGO_TARGET_DIR=TGT, CARGO_NET_OFFLINE="true")

def sh(cmd, cwd=None, timeout=3600):
    p = subprocess.run(cmd, shell=True, cwd=cwd, env=env, stdout=subprocess.PIPE, stderr=subprocess.STDOUT, text=True, timeout=timeout)
    return p.returncode, p.stdout

howto = open(os.path.join(src, "HOWTO.md")).read()
m = re.search(r"(yui[\w-]*|bin-ykh)/(tests|examples)/[\w-]+\.rs", howto)
demo_rel = m.group(0) if m else None
meta = dict(property=prop, name=name, demo_path=demo_rel, steps=[])
subprocess.run("git -C /repo worktree remove --force %s" % WT, shell=True, stdout=subprocess.DEVNULL, stderr=subprocess.DEVNULL)
rc, out = sh("git -C /repo worktree add --detach %s HEAD" % WT)
assert rc == 0, out
try:
    crate = demo_rel.split("/")[0]
    kind = demo_rel.split("/")[1]
    stem = os.path.basename(demo_rel)[:-3]
    os.makedirs(os.path.join(WT, os.path.dirname(demo_rel)), exist_ok=True)
    shutil.copy(os.path.join(src, "demo.rs"), os.path.join(WT, demo_rel))
    pkg = {"yui-khovanov": "yui-kh"}.get(crate, crate)
    demo_cmd = ("cargo test --offline -p %s --test %s" % (pkg, stem)) if kind == "tests" else ("cargo run --offline -p %s --example %s" % (pkg, stem))
    rc0, out0 = sh(demo_cmd, cwd=WT)
    meta["steps"].append(dict(what="demo on unchanged code", cmd=demo_cmd, rc=rc0, tail=out0[-400:]))
    rc, out = sh("git apply %s" % os.path.join(src, "patch.diff"), cwd=WT)
    assert rc == 0, out
    rc1, out1 = sh(demo_cmd, cwd=WT)
    meta["steps"].append(dict(what="demo with the change", cmd=demo_cmd, rc=rc1, tail=out1[-600:]))
    os.remove(os.path.join(WT, demo_rel))
    rc2, out2 = sh("cargo test --workspace --offline --no-fail-fast", cwd=WT)
    res = re.findall(r"test result: (\w+)\. (\d+) passed; (\d+) failed", out2)
    passed = sum(int(r[1]) for r in res)
    failed = sum(int(r[2]) for r in res)
    meta["steps"].append(dict(what="existing test suite with the change", cmd="cargo test --workspace --offline --no-fail-fast", rc=rc2, passed=passed, failed=failed))
    meta["confirmed"] = (rc0 == 0 and rc1 != 0 and rc2 == 0 and failed == 0)
finally:
    subprocess.run("git -C /repo worktree remove --force %s" % WT, shell=True, stdout=subprocess.DEVNULL, stderr=subprocess.DEVNULL)
print("confirmed:", meta.get("confirmed"), [(s["what"], s["rc"]) for s in meta["steps"]])
# ---- run our checks against /repo with the patch
dst = os.path.join(V, "seeded", name)
os.makedirs(dst, exist_ok=True)
shutil.copy(os.path.join(src, "patch.diff"), os.path.join(dst, "patch.diff"))
shutil.copy(os.path.join(src, "demo.rs"), os.path.join(dst, "demo.rs"))
shutil.copy(os.path.join(src, "HOWTO.md"), os.path.join(dst, "HOWTO.md"))
meta["needs_to_manifest"] = re.sub(r"\s+", " ", howto)[:1500]
if meta.get("confirmed"):
    rc, out = sh("git -C /repo apply %s" % os.path.join(dst, "patch.diff"))
    assert rc == 0, out
    try:
        meta["checks"] = []
        for pr in [prop] + extra_checks:
            t0 = time.time()
            p = subprocess.run("./check %s --tier quick" % pr, shell=True, cwd=V, stdout=subprocess.PIPE, stderr=subprocess.STDOUT, text=True)
            viol = [l for l in p.stdout.split("\n") if l.startswith("VIOLATION")]
            meta["checks"].append(dict(check="./check %s --tier quick" % pr, rc=p.returncode, violations=viol[:3], tail=p.stdout[-700:], secs=round(time.time() - t0, 1)))
            print("check", pr, "rc", p.returncode, "violations", len(viol), "%.0fs" % (time.time() - t0))
        meta["detected_by"] = [c["check"] for c in meta["checks"] if c["rc"] == 1 and c["violations"]]
    finally:
        subprocess.run("git -C /repo checkout -- .", shell=True)
json.dump(meta, open(os.path.join(dst, "meta.json"), "w"), indent=1)
print("detected_by:", meta.get("detected_by"))
