#!/usr/bin/env python3
"""prints the markdown table of seeded changes (from /verif/seeded/*/meta.json)"""
import json, glob, os
rows = []
for f in sorted(glob.glob('/verif/seeded/*/meta.json')):
    m = json.load(open(f))
    det = m.get('detected_by') or []
    checks = ', '.join(c.split()[1] for c in det) if det else '—'
    tried = ', '.join(c['check'].split()[1] for c in m.get('checks', []))
    rows.append((m['name'], m['property'], 'yes' if m.get('confirmed') else 'NO', checks, tried, m.get('note', '')))
print('| seeded change | property | confirmed (tests pass, demo fails/passes) | caught by (quick) | checks tried | note |')
print('|---|---|---|---|---|---|')
for r in rows:
    print('| %s | %s | %s | %s | %s | %s |' % r)
