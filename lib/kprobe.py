#!/usr/bin/env python3
"""debug helper: run harnesses matching a prefix without replay, print one line each"""
import sys, krun
from concurrent.futures import ThreadPoolExecutor
pref = sys.argv[1]
scale = float(sys.argv[2]) if len(sys.argv) > 2 else 1.0
hs = [h for h in krun.discover() if h["name"].startswith(pref)]
krun.build()
with ThreadPoolExecutor(max_workers=12) as ex:
    for r in ex.map(lambda h: krun.run_harness(h, scale), hs):
        print(r["harness"], r["result"], r.get("why", ""), "solver=%s wall=%s" % (r["solver_s"], r["wall_s"]),
              [f["desc"][:70] + " @ " + (f["loc"] or "")[-60:] for f in r["failed"]][:4], flush=True)
