//! The symbolic scalar: a mathematical integer with a concrete shadow value (BigInt) and a canonical
//! polynomial term over the run's input and auxiliary variables.  Every Boolean observation of a value
//! (==, is_zero, cmp, sign, ...) is answered from the shadow and recorded in the path condition.

use crate::ctx::{with_ctx, Rel, TERM_BUDGET_MSG};
use crate::poly::{Poly, P};
use num_bigint::BigInt;
use num_traits::{FromPrimitive, Num, One, Signed, ToPrimitive, Zero};
use std::cmp::Ordering;
use std::fmt;
use std::ops::*;
use std::sync::Arc;
use yui::*;

#[derive(Clone)]
pub struct SymInt {
    pub c: BigInt,
    pub t: P,
}

impl SymInt {
    pub fn constant<T: Into<BigInt>>(c: T) -> SymInt {
        let c: BigInt = c.into();
        SymInt { t: Arc::new(Poly::constant(c.clone())), c }
    }
    /// declare a fresh input variable with the given concrete (model) value
    pub fn input(name: &str, value: BigInt, bound: Option<BigInt>) -> SymInt {
        let v = with_ctx(|c| c.new_var(name.to_string(), true, value.clone(), bound));
        SymInt { c: value, t: Arc::new(Poly::var(v)) }
    }
    fn mk(c: BigInt, t: Poly) -> SymInt {
        let t = with_ctx(|cx| {
            cx.tick();
            let t = if cx.recording && !cx.pinned.is_empty() && !t.is_const() { t.subst(&cx.pinned) } else { t };
            if cx.recording && t.nterms() > cx.max_terms {
                cx.recording = false;
                panic!("{}", TERM_BUDGET_MSG);
            }
            t
        });
        SymInt { c, t: Arc::new(t) }
    }
    pub fn is_concrete(&self) -> bool {
        self.t.is_const()
    }
    fn branch(&self, rel: Rel) -> bool {
        if self.t.is_const() {
            return rel.holds(&self.c);
        }
        with_ctx(|cx| {
            if cx.recording && !cx.pinned.is_empty() {
                let t = self.t.subst(&cx.pinned);
                if t.is_const() {
                    return rel.holds(&self.c);
                }
                cx.branch(&t, rel, &self.c)
            } else {
                cx.branch(&self.t, rel, &self.c)
            }
        })
    }
    fn diff(&self, o: &SymInt) -> SymInt {
        SymInt { c: &self.c - &o.c, t: Arc::new(self.t.sub(&o.t)) }
    }
    /// pin this value to its shadow (sound narrowing of the class)
    pub fn concretize(&self) -> BigInt {
        if !self.t.is_const() {
            let d = SymInt { c: BigInt::zero(), t: Arc::new(self.t.sub(&Poly::constant(self.c.clone()))) };
            with_ctx(|cx| cx.concretizations += 1);
            let ok = d.branch(Rel::Eq);
            debug_assert!(ok);
        }
        self.c.clone()
    }

    fn add_(&self, o: &SymInt) -> SymInt {
        SymInt::mk(&self.c + &o.c, self.t.add(&o.t))
    }
    fn sub_(&self, o: &SymInt) -> SymInt {
        SymInt::mk(&self.c - &o.c, self.t.sub(&o.t))
    }
    fn mul_(&self, o: &SymInt) -> SymInt {
        if let Some(k) = o.t.as_const() {
            return SymInt::mk(&self.c * &o.c, self.t.scale(&k));
        }
        if let Some(k) = self.t.as_const() {
            return SymInt::mk(&self.c * &o.c, o.t.scale(&k));
        }
        SymInt::mk(&self.c * &o.c, self.t.mul(&o.t))
    }
    fn neg_(&self) -> SymInt {
        SymInt::mk(-&self.c, self.t.neg())
    }
    /// truncated quotient (Rust semantics); introduces an auxiliary quotient variable
    fn div_(&self, o: &SymInt) -> SymInt {
        if !o.branch(Rel::Ne) {
            panic!("attempt to divide by zero");
        }
        let q = &self.c / &o.c;
        if self.t.is_const() && o.t.is_const() {
            return SymInt::constant(q);
        }
        if let Some(k) = o.t.as_const() {
            if k.is_one() {
                return self.clone();
            }
            if (-&k).is_one() {
                return self.neg_();
            }
        }
        if self.t.is_zero() {
            return SymInt::constant(0);
        }
        let v = with_ctx(|cx| cx.div_var(&self.t, &o.t, q.clone()));
        SymInt::mk(q, Poly::var(v))
    }
    fn rem_(&self, o: &SymInt) -> SymInt {
        let q = self.div_(o);
        // r = a - q*b as a polynomial: ring identities involving remainders stay syntactic
        self.sub_(&q.mul_(o))
    }
}

impl fmt::Display for SymInt {
    fn fmt(&self, f: &mut fmt::Formatter<'_>) -> fmt::Result {
        fmt::Display::fmt(&self.c, f)
    }
}
impl fmt::Debug for SymInt {
    fn fmt(&self, f: &mut fmt::Formatter<'_>) -> fmt::Result {
        fmt::Display::fmt(&self.c, f)
    }
}
impl Default for SymInt {
    fn default() -> Self {
        SymInt::constant(0)
    }
}
impl PartialEq for SymInt {
    fn eq(&self, o: &SymInt) -> bool {
        self.diff(o).branch(Rel::Eq)
    }
}
impl Eq for SymInt {}
impl Ord for SymInt {
    fn cmp(&self, o: &SymInt) -> Ordering {
        let d = self.diff(o);
        let ord = self.c.cmp(&o.c);
        let rel = match ord {
            Ordering::Less => Rel::Lt,
            Ordering::Equal => Rel::Eq,
            Ordering::Greater => Rel::Gt,
        };
        let ok = d.branch(rel);
        debug_assert!(ok);
        ord
    }
}
impl PartialOrd for SymInt {
    fn partial_cmp(&self, o: &SymInt) -> Option<Ordering> {
        Some(self.cmp(o))
    }
}
impl std::hash::Hash for SymInt {
    fn hash<H: std::hash::Hasher>(&self, state: &mut H) {
        // hashing observes the value: pin it
        self.concretize().hash(state)
    }
}

impl Zero for SymInt {
    fn zero() -> Self {
        SymInt::constant(0)
    }
    fn is_zero(&self) -> bool {
        self.branch(Rel::Eq)
    }
}
impl One for SymInt {
    fn one() -> Self {
        SymInt::constant(1)
    }
    fn is_one(&self) -> bool {
        self.diff(&SymInt::constant(1)).branch(Rel::Eq)
    }
}

macro_rules! binop {
    ($tr:ident, $m:ident, $tra:ident, $ma:ident, $f:ident) => {
        impl $tr<SymInt> for SymInt {
            type Output = SymInt;
            fn $m(self, o: SymInt) -> SymInt {
                self.$f(&o)
            }
        }
        impl<'a> $tr<&'a SymInt> for SymInt {
            type Output = SymInt;
            fn $m(self, o: &'a SymInt) -> SymInt {
                self.$f(o)
            }
        }
        impl<'a> $tr<SymInt> for &'a SymInt {
            type Output = SymInt;
            fn $m(self, o: SymInt) -> SymInt {
                self.$f(&o)
            }
        }
        impl<'a, 'b> $tr<&'b SymInt> for &'a SymInt {
            type Output = SymInt;
            fn $m(self, o: &'b SymInt) -> SymInt {
                self.$f(o)
            }
        }
        impl $tra<SymInt> for SymInt {
            fn $ma(&mut self, o: SymInt) {
                *self = self.$f(&o);
            }
        }
        impl<'a> $tra<&'a SymInt> for SymInt {
            fn $ma(&mut self, o: &'a SymInt) {
                *self = self.$f(o);
            }
        }
    };
}
binop!(Add, add, AddAssign, add_assign, add_);
binop!(Sub, sub, SubAssign, sub_assign, sub_);
binop!(Mul, mul, MulAssign, mul_assign, mul_);
binop!(Div, div, DivAssign, div_assign, div_);
binop!(Rem, rem, RemAssign, rem_assign, rem_);

impl Neg for SymInt {
    type Output = SymInt;
    fn neg(self) -> SymInt {
        self.neg_()
    }
}
impl<'a> Neg for &'a SymInt {
    type Output = SymInt;
    fn neg(self) -> SymInt {
        self.neg_()
    }
}

impl std::iter::Sum for SymInt {
    fn sum<I: Iterator<Item = SymInt>>(iter: I) -> SymInt {
        iter.fold(SymInt::zero(), |a, b| a + b)
    }
}
impl<'a> std::iter::Sum<&'a SymInt> for SymInt {
    fn sum<I: Iterator<Item = &'a SymInt>>(iter: I) -> SymInt {
        iter.fold(SymInt::zero(), |a, b| a + b)
    }
}

impl Num for SymInt {
    type FromStrRadixErr = num_bigint::ParseBigIntError;
    fn from_str_radix(s: &str, r: u32) -> Result<Self, Self::FromStrRadixErr> {
        BigInt::from_str_radix(s, r).map(SymInt::constant)
    }
}
impl std::str::FromStr for SymInt {
    type Err = num_bigint::ParseBigIntError;
    fn from_str(s: &str) -> Result<Self, Self::Err> {
        s.parse::<BigInt>().map(SymInt::constant)
    }
}

impl Signed for SymInt {
    fn abs(&self) -> SymInt {
        if self.is_negative() {
            self.neg_()
        } else {
            self.clone()
        }
    }
    fn abs_sub(&self, o: &SymInt) -> SymInt {
        if self <= o {
            SymInt::zero()
        } else {
            self.sub_(o)
        }
    }
    fn signum(&self) -> SymInt {
        if self.is_positive() {
            SymInt::constant(1)
        } else if self.is_negative() {
            SymInt::constant(-1)
        } else {
            SymInt::constant(0)
        }
    }
    fn is_positive(&self) -> bool {
        self.branch(Rel::Gt)
    }
    fn is_negative(&self) -> bool {
        self.branch(Rel::Lt)
    }
}

impl FromPrimitive for SymInt {
    fn from_i64(n: i64) -> Option<Self> {
        Some(SymInt::constant(n))
    }
    fn from_u64(n: u64) -> Option<Self> {
        Some(SymInt::constant(n))
    }
    fn from_i128(n: i128) -> Option<Self> {
        Some(SymInt::constant(n))
    }
    fn from_f64(n: f64) -> Option<Self> {
        BigInt::from_f64(n).map(SymInt::constant)
    }
}
impl ToPrimitive for SymInt {
    fn to_i64(&self) -> Option<i64> {
        self.concretize().to_i64()
    }
    fn to_u64(&self) -> Option<u64> {
        self.concretize().to_u64()
    }
    fn to_i128(&self) -> Option<i128> {
        self.concretize().to_i128()
    }
    fn to_f64(&self) -> Option<f64> {
        self.concretize().to_f64()
    }
}
impl From<i32> for SymInt {
    fn from(n: i32) -> Self {
        SymInt::constant(n)
    }
}
impl From<i64> for SymInt {
    fn from(n: i64) -> Self {
        SymInt::constant(n)
    }
}

// ---- yui algebraic traits (mirrors impl_integer! in yui/src/misc/int_ext.rs, minus the num-integer overrides:
// gcd / gcdx / lcm are the repo's generic EucRing defaults, so that code is executed symbolically)

macro_rules! impl_ops {
    ($trait:ident) => {
        impl $trait for SymInt {}
        impl<'a> $trait<SymInt> for &'a SymInt {}
    };
}
impl_ops!(AddMonOps);
impl_ops!(AddGrpOps);
impl_ops!(MonOps);
impl_ops!(RingOps);
impl_ops!(EucRingOps);
impl_ops!(IntOps);

impl Elem for SymInt {
    fn math_symbol() -> String {
        String::from("Z")
    }
}
impl AddMon for SymInt {}
impl AddGrp for SymInt {}
impl Mon for SymInt {}
impl Ring for SymInt {
    fn inv(&self) -> Option<Self> {
        if self.is_unit() {
            Some(self.clone())
        } else {
            None
        }
    }
    fn is_unit(&self) -> bool {
        self.is_one() || self == &-Self::one()
    }
    fn normalizing_unit(&self) -> Self {
        if !self.is_negative() {
            Self::one()
        } else {
            -Self::one()
        }
    }
    fn c_weight(&self) -> f64 {
        self.abs().to_f64().unwrap()
    }
}
impl EucRing for SymInt {}
impl Integer for SymInt {}

impl yui_matrix::dense::lll::LLLRingOps<SymInt> for SymInt {}
impl<'a> yui_matrix::dense::lll::LLLRingOps<SymInt> for &'a SymInt {}
impl yui_matrix::dense::lll::LLLRing for SymInt {
    type Int = SymInt;
    fn alpha() -> (Self, Self) {
        (Self::from(3), Self::from(4))
    }
    fn as_int(&self) -> Option<Self::Int> {
        Some(self.clone())
    }
    fn conj(&self) -> Self {
        self.clone()
    }
}

impl<'a, 'b> num_traits::Pow<&'b usize> for &'a SymInt {
    type Output = SymInt;
    fn pow(self, n: &'b usize) -> SymInt {
        let mut r = SymInt::constant(1);
        for _ in 0..*n {
            r = &r * self;
        }
        r
    }
}

impl<'b> num_traits::Pow<&'b usize> for SymInt {
    type Output = SymInt;
    fn pow(self, n: &'b usize) -> SymInt {
        num_traits::Pow::pow(&self, n)
    }
}
