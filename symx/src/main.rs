//! symx run <PROP> --tier quick|thorough [--seed N] [--shard i/n] [--out file] [--only substr]
//! symx replay <file.json>
//! symx list <PROP> [--tier ...]
use num_bigint::BigInt;
use serde_json::{json, Value};
use symx::explore::Explorer;
use symx::registry::{configs, Tier};

fn arg(args: &[String], name: &str) -> Option<String> {
    args.iter().position(|a| a == name).and_then(|i| args.get(i + 1).cloned())
}

fn main() {
    // one rayon worker: the repo's parallel code paths run, on a single schedule (assumption A1)
    let _ = rayon::ThreadPoolBuilder::new().num_threads(1).build_global();
    // silence panic backtraces of expected panics inside catch_unwind (messages are kept in the results)
    if std::env::var("SYMX_BACKTRACE").is_err() {
        std::panic::set_hook(Box::new(|_| {}));
    }
    let args: Vec<String> = std::env::args().collect();
    let cmd = args.get(1).map(|s| s.as_str()).unwrap_or("");
    let tier = match arg(&args, "--tier").as_deref() {
        Some("thorough") => Tier::Thorough,
        _ => Tier::Quick,
    };
    let seed: u64 = arg(&args, "--seed").and_then(|s| s.parse().ok()).unwrap_or(0);
    match cmd {
        "list" => {
            let prop = args.get(2).expect("property");
            for e in configs(prop, tier, seed) {
                println!("{}", e.h.id());
            }
        }
        "run" => {
            let prop = args.get(2).expect("property").to_uppercase();
            let (si, sn) = arg(&args, "--shard")
                .map(|s| {
                    let mut it = s.split('/');
                    (it.next().unwrap().parse::<usize>().unwrap(), it.next().unwrap().parse::<usize>().unwrap())
                })
                .unwrap_or((0, 1));
            let only = arg(&args, "--only");
            let scale: f64 = arg(&args, "--time-scale").and_then(|s| s.parse().ok()).unwrap_or(1.0);
            let cross = tier == Tier::Thorough || std::env::var("SYMX_CROSS").is_ok();
            let mut ex = Explorer::new(3000, cross);
            ex.property = prop.clone();
            if tier == Tier::Thorough {
                ex.z3.fallback_ms = 30000;
                ex.z3.fallback_solvers = 3;
            }
            let mut results: Vec<Value> = Vec::new();
            let t0 = std::time::Instant::now();
            for (k, e) in configs(&prop, tier, seed).into_iter().enumerate() {
                if k % sn != si {
                    continue;
                }
                if let Some(o) = &only {
                    if !e.h.id().contains(o.as_str()) {
                        continue;
                    }
                }
                let mut b = e.budget.clone();
                b.max_secs *= scale;
                if tier == Tier::Thorough && !b.sample_only {
                    // every quick configuration is explored deeper in thorough
                    b.max_classes = b.max_classes.saturating_mul(10);
                    b.max_secs *= 4.0;
                    // wall-clock ceiling per configuration (SYMX_THOROUGH_CAP_S, default 20 min): the deepest tier
                    // still has to finish; what the ceiling cuts off is reported as classes_budget_exhausted
                    let cap: f64 = std::env::var("SYMX_THOROUGH_CAP_S").ok().and_then(|s| s.parse().ok()).unwrap_or(1200.0);
                    b.max_secs = b.max_secs.min(cap);
                }
                let r = e.h.explore(&mut ex, &b, seed);
                eprintln!(
                    "[{}] {}: classes={} proven={} unknown={} undecided_flips={} exhaustive={} viol={} err={} {:.1}s ({})",
                    prop, r.id, r.classes, r.proven, r.unknown_classes, r.open_branches, r.exhaustive, r.violations.len(), r.errors.len(), r.wall_s, r.stop_reason
                );
                let mut j = r.to_json();
                j["samples"] = json!(r.samples);
                results.push(j);
            }
            let out = json!({
                "property": prop, "tier": format!("{:?}", tier).to_lowercase(), "seed": seed, "shard": format!("{}/{}", si, sn),
                "wall_s": t0.elapsed().as_secs_f64(),
                "solver": {"primary": ex.z3.name, "queries": ex.z3.queries, "sat": ex.z3.sat, "unsat": ex.z3.unsat, "unknown": ex.z3.unknown,
                           "fallback_runs": ex.z3.fallbacks, "fallback_resolved": ex.z3.fallback_resolved, "seconds": ex.z3.time.as_secs_f64()},
                "configs": results,
            });
            let text = serde_json::to_string_pretty(&out).unwrap();
            match arg(&args, "--out") {
                Some(p) => std::fs::write(p, text).unwrap(),
                None => println!("{}", text),
            }
        }
        "replay" => {
            let path = args.get(2).expect("file");
            let v: Value = serde_json::from_str(&std::fs::read_to_string(path).unwrap()).unwrap();
            let prop = v["property"].as_str().unwrap();
            let hid = v["harness"].as_str().unwrap();
            let inputs: Vec<BigInt> = v["inputs"].as_array().unwrap().iter().map(|p| p[1].as_str().unwrap().parse::<BigInt>().unwrap()).collect();
            let mut found = false;
            for t in [Tier::Quick, Tier::Thorough] {
                for e in configs(prop, t, seed) {
                    if e.h.id() == hid {
                        found = true;
                        match e.h.native(&inputs) {
                            Some(w) => {
                                println!("REPRODUCED: {}", w);
                                std::process::exit(1);
                            }
                            None => {
                                println!("not reproduced");
                                std::process::exit(0);
                            }
                        }
                    }
                }
            }
            if !found {
                eprintln!("harness {} not found", hid);
                std::process::exit(2);
            }
        }
        _ => {
            eprintln!("usage: symx run|list|replay ...");
            std::process::exit(2);
        }
    }
}
