//! Model-driven exploration of one harness configuration.
//!
//! loop:  ask the solver for an input inside Bounds ∧ Pre that lies in no explored class
//!        -> run the real code on it (SymInt instantiation), obtaining PC, Defs, obligations
//!        -> solver query  Bounds ∧ Pre ∧ Def ∧ PC ∧ ¬P   (unsat = property holds on the whole class)
//!        -> block the class:  assert  Def_i ∧ ¬PC_i  (auxiliaries are total functions of the inputs)
//! until the first query is unsat (exhaustive: the classes partition the bounded input space) or a budget ends.
//! Candidate counterexamples are replayed on the repo's BigInt instantiation before they are reported.

use crate::ctx::{self, Formula, RunRecord, ENCODING_MSG, STEP_BUDGET_MSG, TERM_BUDGET_MSG};
use crate::poly::Var;
use crate::solver::{Answer, Solver};
use crate::symint::SymInt;
use crate::vint::{VInt, VIntOps, NATIVE_FAILS, NATIVE_PRE_FAIL};
use num_bigint::BigInt;
use num_traits::{ToPrimitive, Zero};
use serde_json::{json, Value};
use std::collections::BTreeSet;
use std::panic::{catch_unwind, AssertUnwindSafe};
use std::time::{Duration, Instant};

#[derive(Clone, Debug)]
pub struct InputSpec {
    pub name: String,
    pub lo: Option<i64>,
    pub hi: Option<i64>,
}

impl InputSpec {
    pub fn boxed(name: &str, b: i64) -> InputSpec {
        InputSpec { name: name.into(), lo: Some(-b), hi: Some(b) }
    }
    pub fn range(name: &str, lo: i64, hi: i64) -> InputSpec {
        InputSpec { name: name.into(), lo: Some(lo), hi: Some(hi) }
    }
    pub fn free(name: &str) -> InputSpec {
        InputSpec { name: name.into(), lo: None, hi: None }
    }
}

pub trait Harness {
    fn id(&self) -> String;
    fn functions(&self) -> Vec<&'static str>;
    fn inputs(&self) -> Vec<InputSpec>;
    fn pre<I: VInt>(&self, _xs: &[I])
    where
        for<'x> &'x I: VIntOps<I>,
    {
    }
    fn body<I: VInt>(&self, xs: &[I])
    where
        for<'x> &'x I: VIntOps<I>;
    /// raw SMT constraints over the input names (in addition to bounds and `pre`)
    fn extra_smt(&self) -> Vec<String> {
        vec![]
    }
    /// the same constraints, evaluated natively on a model (for replay)
    fn extra_ok(&self, _xs: &[BigInt]) -> bool {
        true
    }
    fn panics_are_violations(&self) -> bool {
        true
    }
}

#[derive(Clone, Debug)]
pub struct Budget {
    /// extra seed-dependent starting points (besides the generic one)
    pub starts: u64,
    /// solver-sampled mode: do not flip branches and do not attempt the class query (each run is only evaluated on its
    /// solver-chosen input; classes are reported as unknown, never as proven)
    pub sample_only: bool,
    pub max_classes: usize,
    pub max_secs: f64,
    pub query_ms: u64,
    pub steps: u64,
}

#[derive(Clone, Debug)]
pub struct Violation {
    pub harness: String,
    pub what: String,
    pub inputs: Vec<(String, String)>,
}

#[derive(Debug, Default)]
pub struct ConfigResult {
    pub id: String,
    pub functions: Vec<String>,
    pub inputs: Vec<String>,
    pub bounds: String,
    pub classes: usize,
    pub proven: usize,
    pub trivial: usize,
    pub unknown_classes: usize,
    pub budget_classes: usize,
    pub obligations: usize,
    pub obligations_syntactic: usize,
    pub exhaustive: bool,
    pub stop_reason: String,
    pub queries: u64,
    pub sat: u64,
    pub unsat: u64,
    pub unknown: u64,
    pub solver_s: f64,
    pub wall_s: f64,
    pub concretizations: u64,
    pub max_pc: usize,
    pub samples: Vec<Value>,
    pub violations: Vec<Violation>,
    pub errors: Vec<String>,
    pub cross_checked: u64,
    pub cross_disagree: u64,
    pub open_branches: usize,
    pub divergences: usize,
}

impl ConfigResult {
    pub fn to_json(&self) -> Value {
        json!({
            "harness": self.id, "functions": self.functions, "inputs": self.inputs, "bounds": self.bounds,
            "classes": self.classes, "classes_proven": self.proven, "classes_without_solver_obligation": self.trivial,
            "classes_unknown": self.unknown_classes, "undecided_branch_flips": self.open_branches, "nondeterministic_divergences": self.divergences, "classes_budget_exhausted": self.budget_classes,
            "obligations": self.obligations, "obligations_syntactic_identities": self.obligations_syntactic,
            "exhaustive": self.exhaustive, "stop_reason": self.stop_reason,
            "queries": self.queries, "sat": self.sat, "unsat": self.unsat, "unknown": self.unknown,
            "solver_s": (self.solver_s * 100.0).round() / 100.0, "wall_s": (self.wall_s * 100.0).round() / 100.0,
            "concretizations": self.concretizations, "max_path_condition_length": self.max_pc,
            "cvc5_cross_checked": self.cross_checked, "cvc5_disagreements": self.cross_disagree,
            "violations": self.violations.iter().map(|v| json!({"what": v.what, "inputs": v.inputs})).collect::<Vec<_>>(),
            "errors": self.errors,
        })
    }
}

fn panic_msg(e: &Box<dyn std::any::Any + Send>) -> String {
    if let Some(s) = e.downcast_ref::<&str>() {
        s.to_string()
    } else if let Some(s) = e.downcast_ref::<String>() {
        s.clone()
    } else {
        "panic (non-string payload)".into()
    }
}

/// run the harness natively on BigInt inputs. -> Ok(list of failed obligation labels) | Err(panic message)
pub fn run_native<H: Harness>(h: &H, xs: &[BigInt]) -> Result<Vec<String>, String> {
    NATIVE_FAILS.lock().unwrap().clear();
    let r = catch_unwind(AssertUnwindSafe(|| {
        h.pre::<BigInt>(xs);
        h.body::<BigInt>(xs);
    }));
    let fails = std::mem::take(&mut *NATIVE_FAILS.lock().unwrap());
    match r {
        Ok(()) => Ok(fails),
        Err(e) => Err(panic_msg(&e)),
    }
}

/// run the harness on constant SymInt inputs (recording off): the same generic instantiation as the symbolic run,
/// executed purely on the BigInt shadow values (every term is a constant, no path condition, no solver)
pub fn run_concrete<H: Harness>(h: &H, xs: &[BigInt]) -> Result<Vec<String>, String> {
    ctx::begin_run("c", u64::MAX);
    ctx::with_ctx(|c| c.recording = false);
    let ys: Vec<SymInt> = xs.iter().map(|v| SymInt::constant(v.clone())).collect();
    let r = catch_unwind(AssertUnwindSafe(|| {
        h.pre::<SymInt>(&ys);
        h.body::<SymInt>(&ys);
    }));
    let rec = ctx::end_run();
    match r {
        Ok(()) => {
            if rec.assumptions.iter().any(|f| !f.eval(&|_| BigInt::zero())) {
                return Err(NATIVE_PRE_FAIL.to_string());
            }
            Ok(rec.obligations.iter().filter(|o| !o.1.eval(&|_| BigInt::zero())).map(|o| o.0.clone()).collect())
        }
        Err(e) => Err(panic_msg(&e)),
    }
}

/// native verdict for a candidate: Some(description) if the property is violated when the real code runs on
/// these concrete inputs.  Two replays: (1) the repo's BigInt instantiation (which may take type-dispatched paths,
/// e.g. the LLL preprocessing of snf), (2) the SymInt instantiation on constants (same generic path as the
/// symbolic run, plain BigInt arithmetic).  Either one reproducing confirms the violation.
pub fn native_verdict<H: Harness>(h: &H, xs: &[BigInt]) -> Option<String> {
    if !h.extra_ok(xs) {
        return None;
    }
    let judge = |r: Result<Vec<String>, String>, how: &str| -> Option<String> {
        match r {
            Ok(f) if f.is_empty() => None,
            Ok(f) => Some(format!("obligation(s) failed in {} replay: {}", how, f.join("; "))),
            Err(m) if m.contains(NATIVE_PRE_FAIL) => None,
            Err(m) => {
                if h.panics_are_violations() {
                    Some(format!("panic in {} replay: {}", how, m))
                } else {
                    None
                }
            }
        }
    };
    judge(run_native(h, xs), "BigInt").or_else(|| judge(run_concrete(h, xs), "concrete generic-path"))
}

struct SymRun {
    rec: RunRecord,
    panic: Option<String>,
}

fn run_symbolic<H: Harness>(h: &H, specs: &[InputSpec], model: &[BigInt], tag: &str, steps: u64, with_pre: bool) -> SymRun {
    ctx::begin_run(tag, steps);
    let xs: Vec<SymInt> = specs.iter().zip(model).map(|(s, v)| SymInt::input(&s.name, v.clone(), match (s.lo, s.hi) { (Some(a), Some(b)) => Some(BigInt::from(a.abs().max(b.abs()))), _ => None })).collect();
    let r = catch_unwind(AssertUnwindSafe(|| {
        if with_pre {
            h.pre::<SymInt>(&xs);
        } else {
            h.body::<SymInt>(&xs);
        }
    }));
    let rec = ctx::end_run();
    SymRun { rec, panic: r.err().map(|e| panic_msg(&e)) }
}

fn namer(rec: &RunRecord) -> impl Fn(Var) -> String + '_ {
    move |v| rec.vars[v as usize].name.clone()
}

pub struct Explorer {
    /// property id, for child-process replays
    pub property: String,
    pub z3: Solver,
    pub cvc5: Option<Solver>,
    pub cross_every: u64,
    pub run_counter: u64,
}

impl Explorer {
    pub fn new(query_ms: u64, cross: bool) -> Explorer {
        Explorer { property: String::new(), z3: Solver::z3(query_ms), cvc5: if cross { Some(Solver::cvc5(query_ms)) } else { None }, cross_every: 7, run_counter: 0 }
    }

    pub fn explore<H: Harness>(&mut self, h: &H, budget: &Budget, seed: u64) -> ConfigResult {
        let t0 = Instant::now();
        let specs = h.inputs();
        let mut res = ConfigResult { id: h.id(), ..Default::default() };
        res.functions = h.functions().iter().map(|s| s.to_string()).collect();
        res.inputs = specs.iter().map(|s| s.name.clone()).collect();
        res.bounds = specs
            .iter()
            .map(|s| match (s.lo, s.hi) {
                (Some(a), Some(b)) => format!("{} in [{},{}]", s.name, a, b),
                _ => format!("{} in Z", s.name),
            })
            .collect::<Vec<_>>()
            .join(", ");
        let q0 = (self.z3.queries, self.z3.sat, self.z3.unsat, self.z3.unknown, self.z3.time);
        let z = &mut self.z3;
        z.push();
        for s in &specs {
            z.declare(&s.name);
            if let Some(lo) = s.lo {
                z.assert(&format!("(>= {} {})", s.name, smt_int(lo)));
            }
            if let Some(hi) = s.hi {
                z.assert(&format!("(<= {} {})", s.name, smt_int(hi)));
            }
        }
        for e in h.extra_smt() {
            z.assert(&e);
        }
        // a small seed-dependent preference so that different seeds start from different corners
        let _ = seed;
        if budget.sample_only {
            // solver-sampled mode: inputs are chosen by the solver inside the box (seed-dependent residue hints), the real code
            // runs on them concretely (BigInt instantiation and generic path) and only the concrete obligations are judged.
            use std::hash::{Hash, Hasher};
            let input_names: Vec<String> = specs.iter().map(|s| s.name.clone()).collect();
            let mut skipped = 0usize;
            for k in 0..budget.starts {
                if t0.elapsed().as_secs_f64() > budget.max_secs {
                    break;
                }
                let z = &mut self.z3;
                z.push();
                for (i, n) in input_names.iter().enumerate() {
                    let mut hh = std::collections::hash_map::DefaultHasher::new();
                    (seed, k, i as u64, res.id.as_str()).hash(&mut hh);
                    z.assert(&format!("(= (mod {} 7) {})", n, hh.finish() % 7));
                }
                let r = z.check_model(&input_names);
                z.pop();
                let (Answer::Sat, Some(m)) = r else { continue };
                let model: Vec<BigInt> = input_names.iter().map(|n| m.get(n).cloned().unwrap_or_else(BigInt::zero)).collect();
                let pairs: Vec<(String, String)> = input_names.iter().cloned().zip(model.iter().map(|v| v.to_string())).collect();
                // inputs violating the precondition are skipped (run_native reports them as "no verdict")
                match run_native(h, &model) {
                    Err(m) if m.contains(NATIVE_PRE_FAIL) => {
                        skipped += 1;
                        continue;
                    }
                    _ => {}
                }
                res.classes += 1;
                res.unknown_classes += 1;
                if let Some(w) = native_verdict(h, &model) {
                    res.violations.push(Violation { harness: h.id(), what: w, inputs: pairs.clone() });
                    if res.violations.len() >= 2 {
                        break;
                    }
                }
                if res.samples.len() < 3 {
                    res.samples.push(json!({"engine": "S", "harness": h.id(), "mode": "solver-sampled input, concrete run", "model": pairs.iter().map(|(a, b)| format!("{}={}", a, b)).collect::<Vec<_>>().join(" ")}));
                }
            }
            self.z3.pop();
            res.stop_reason = format!("solver-sampled mode: {} inputs executed concretely ({} skipped by the precondition); nothing is claimed beyond these inputs", res.classes, skipped);
            res.queries = self.z3.queries - q0.0;
            res.sat = self.z3.sat - q0.1;
            res.unsat = self.z3.unsat - q0.2;
            res.unknown = self.z3.unknown - q0.3;
            res.solver_s = (self.z3.time - q0.4).as_secs_f64();
            res.wall_s = t0.elapsed().as_secs_f64();
            return res;
        }
        // ---- Pre: extracted once, symbolically (ring operations on the inputs only)
        let zeros: Vec<BigInt> = specs.iter().map(|_| BigInt::zero()).collect();
        self.run_counter += 1;
        let pre = run_symbolic(h, &specs, &zeros, &format!("p{}", self.run_counter), budget.steps, true);
        if let Some(m) = &pre.panic {
            res.errors.push(format!("pre() panicked: {}", m));
        }
        if !pre.rec.pc.is_empty() || !pre.rec.defs.is_empty() {
            res.errors.push("pre() branched on symbolic values: preconditions must be branch-free".into());
        }
        {
            let nm = namer(&pre.rec);
            for f in &pre.rec.assumptions {
                z.assert(&f.smt(&nm));
            }
        }
        let pre_formulas: Vec<Formula> = pre.rec.assumptions.clone();
        let input_names: Vec<String> = specs.iter().map(|s| s.name.clone()).collect();

        // ---- generational search over the path tree.
        // work item: (input model, bound, expected prefix): the run must reproduce `expected` as the first
        // atoms of its path condition (determinism check); branches below `bound` were already handled by the parent.
        struct Item {
            model: Vec<BigInt>,
            bound: usize,
            expected: Vec<crate::ctx::Atom>,
        }
        let mut work: std::collections::VecDeque<Item> = std::collections::VecDeque::new();
        let mut take_front = false;
        let mut seen_flips: std::collections::HashSet<u64> = std::collections::HashSet::new();
        let mut seen_classes: std::collections::HashSet<u64> = std::collections::HashSet::new();
        let mut siblings: std::collections::HashMap<u64, Vec<crate::ctx::Atom>> = std::collections::HashMap::new();
        let mut pinned_seen: std::collections::HashMap<Var, Vec<BigInt>> = std::collections::HashMap::new();
        let mut open_branches = 0usize; // flips whose feasibility the solver could not decide
        let mut divergences = 0usize;
        let mut over_budget_paths = 0usize;
        let mut budget_replays = 0usize;
        // first input: a point of Bounds ∧ Pre, preferably generic (every input non-zero), so that the
        // budgeted part of the exploration starts in the densest region instead of the all-zero corner
        let first = {
            let z = &mut self.z3;
            z.push();
            for n in &input_names {
                z.assert(&format!("(distinct {} 0)", n));
            }
            let r = z.check_model(&input_names);
            z.pop();
            match r {
                (Answer::Sat, Some(m)) => (Answer::Sat, Some(m)),
                _ => self.z3.check_model(&input_names),
            }
        };
        match first {
            (Answer::Unsat, _) => {
                res.exhaustive = true;
                res.stop_reason = "Bounds ∧ Pre is unsatisfiable (no input)".into();
            }
            (Answer::Unknown(w), _) => res.stop_reason = format!("solver gave up on the initial query: {}", w),
            (Answer::Sat, m) => match m {
                Some(m) => work.push_back(Item { model: input_names.iter().map(|n| m.get(n).cloned().unwrap_or_else(BigInt::zero)).collect(), bound: 0, expected: vec![] }),
                None => res.errors.push("could not read model".into()),
            },
        }
        // a few more, seed-dependent starting points (each input pinned to a pseudo-random residue mod 5): they only
        // matter for budget-limited configurations, where they spread the explored classes over the box
        if !work.is_empty() {
            use std::hash::{Hash, Hasher};
            for k in 0..budget.starts {
                let z = &mut self.z3;
                z.push();
                for (i, n) in input_names.iter().enumerate() {
                    let mut hh = std::collections::hash_map::DefaultHasher::new();
                    (seed, k, i as u64, res.id.as_str()).hash(&mut hh);
                    let r = hh.finish() % 5;
                    z.assert(&format!("(= (mod {} 5) {})", n, r));
                }
                let r = z.check_model(&input_names);
                z.pop();
                if let (Answer::Sat, Some(m)) = r {
                    work.push_back(Item { model: input_names.iter().map(|n| m.get(n).cloned().unwrap_or_else(BigInt::zero)).collect(), bound: 0, expected: vec![] });
                }
            }
        }
        let mut stopped_early = false;
        // alternate between the shallowest and the deepest pending flip
        while let Some(item) = { take_front = !take_front; if take_front { work.pop_front() } else { work.pop_back() } } {
            if res.classes >= budget.max_classes {
                res.stop_reason = format!("class budget ({}) reached", budget.max_classes);
                stopped_early = true;
                break;
            }
            if t0.elapsed().as_secs_f64() > budget.max_secs {
                res.stop_reason = format!("time budget ({} s) reached", budget.max_secs);
                stopped_early = true;
                break;
            }
            if !res.errors.is_empty() || res.violations.len() >= 2 {
                res.stop_reason = "stopped after error/violation".into();
                stopped_early = true;
                break;
            }
            let model = item.model;
            // ---- run the real code on it
            self.run_counter += 1;
            let tag = format!("{}", self.run_counter);
            let run = run_symbolic(h, &specs, &model, &tag, budget.steps, false);
            let rec = &run.rec;
            // determinism check
            let mut bound = item.bound;
            if !prefix_matches(&rec.pc, &item.expected, &rec.vars) {
                divergences += 1;
                bound = 0;
            }
            let class_hash = hash_atoms(&rec.pc, rec.pc.len());
            if !seen_classes.insert(class_hash) {
                continue; // the same class reached again (only possible after a divergence)
            }
            res.classes += 1;
            res.concretizations += run.rec.concretizations;
            res.max_pc = res.max_pc.max(run.rec.pc.len());
            let nm = namer(rec);
            let val = |v: Var| rec.vars[v as usize].value.clone();
            let model_pairs: Vec<(String, String)> = input_names.iter().cloned().zip(model.iter().map(|v| v.to_string())).collect();
            let mut class_status = "proven";

            let mut budget_hit = false;
            if let Some(msg) = &run.panic {
                if msg.contains(ENCODING_MSG) {
                    res.errors.push(format!("{} on inputs {:?}", msg, model_pairs));
                } else if msg.contains(STEP_BUDGET_MSG) || msg.contains(TERM_BUDGET_MSG) {
                    budget_hit = true;
                    res.budget_classes += 1;
                    class_status = "budget";
                    // non-termination suspicion: replay the input natively in a child process with a wall-clock limit
                    if msg.contains(STEP_BUDGET_MSG) && budget_replays < 3 {
                        budget_replays += 1;
                        match native_in_child(&h.id(), &self.property, &model_pairs, 40) {
                            ChildVerdict::Timeout => {
                                res.violations.push(Violation { harness: h.id(), what: "the call does not terminate: step/memory budget exhausted symbolically and the native replay did not finish within 40 s".into(), inputs: model_pairs.clone() });
                                class_status = "violation";
                            }
                            ChildVerdict::Reproduced(w) => {
                                res.violations.push(Violation { harness: h.id(), what: w, inputs: model_pairs.clone() });
                                class_status = "violation";
                            }
                            ChildVerdict::Fine | ChildVerdict::Unavailable => {}
                        }
                    }
                } else if h.panics_are_violations() {
                    match native_verdict(h, &model) {
                        Some(w) => {
                            res.violations.push(Violation { harness: h.id(), what: w, inputs: model_pairs.clone() });
                            class_status = "violation";
                        }
                        None => res.errors.push(format!("symbolic run panicked ({}) but native replay did not, inputs {:?}", msg, model_pairs)),
                    }
                } else {
                    class_status = "panic-allowed";
                }
            }
            let _ = budget_hit;
            // ---- defs sanity under the model (translator validation)
            for d in &rec.defs {
                if !d.holds(&val) {
                    res.errors.push(format!("division definition does not hold under its own model: {:?}", model_pairs));
                }
            }
            // ---- obligations: concrete evaluation first
            let mut open: Vec<&(String, Formula)> = Vec::new();
            if run.panic.is_none() {
                res.obligations += rec.obligations.len();
                for o in &rec.obligations {
                    match &o.1 {
                        Formula::True => res.obligations_syntactic += 1,
                        f => {
                            if !f.eval(&val) {
                                match native_verdict(h, &model) {
                                    Some(w) => {
                                        res.violations.push(Violation { harness: h.id(), what: format!("{} [{}]", w, o.0), inputs: model_pairs.clone() });
                                        class_status = "violation";
                                    }
                                    None => res.errors.push(format!("obligation '{}' false on the shadow but native replay passes, inputs {:?}", o.0, model_pairs)),
                                }
                                break;
                            }
                            open.push(o);
                        }
                    }
                }
            }
            // ---- walk the path: flip every branch at or after `bound`, asserting the prefix incrementally
            let z = &mut self.z3;
            z.push();
            let mut declared: BTreeSet<Var> = BTreeSet::new();
            let mut defs_done = 0usize;
            let n_inputs = specs.len() as Var;
            let mut need = |z: &mut Solver, upto: Var, declared: &mut BTreeSet<Var>, defs_done: &mut usize| {
                // declare aux variables and assert their definitions up to variable index `upto`
                while *defs_done < rec.defs.len() && rec.defs[*defs_done].q <= upto {
                    let d = &rec.defs[*defs_done];
                    if declared.insert(d.q) {
                        z.declare(&rec.vars[d.q as usize].name);
                    }
                    z.assert(&d.smt(&nm));
                    *defs_done += 1;
                }
            };
            for (i, atom) in rec.pc.iter().enumerate() {
                if t0.elapsed().as_secs_f64() > budget.max_secs * 1.25 {
                    // over budget in the middle of a path: the remaining flips of this path are not examined
                    over_budget_paths += 1;
                    break;
                }
                let mut vs = BTreeSet::new();
                atom.p.vars(&mut vs);
                if let Some(&mx) = vs.iter().next_back() {
                    if mx >= n_inputs {
                        need(z, mx, &mut declared, &mut defs_done);
                    }
                }
                if i >= bound && !budget.sample_only {
                    // all outcomes seen so far at this position under this exact prefix (binary tests: the atom and,
                    // later, its negation; multiway tests / concretisations: one atom per explored value)
                    let ph = hash_atoms(&rec.pc, i);
                    let sib = siblings.entry(ph).or_default();
                    if !sib.contains(atom) {
                        sib.push(atom.clone());
                    }
                    let key = {
                        use std::hash::{Hash, Hasher};
                        let mut hh = std::collections::hash_map::DefaultHasher::new();
                        ph.hash(&mut hh);
                        let mut ss: Vec<&crate::ctx::Atom> = sib.iter().collect();
                        ss.sort();
                        for a in ss {
                            a.hash(&mut hh);
                        }
                        hh.finish()
                    };
                    if seen_flips.insert(key) {
                        // declare every auxiliary the sibling atoms mention (same variable ids: identical prefix)
                        let mut smax: Option<Var> = None;
                        let mut usable: Vec<&crate::ctx::Atom> = Vec::new();
                        for a in sib.iter() {
                            let mut vs = BTreeSet::new();
                            a.p.vars(&mut vs);
                            match vs.iter().next_back() {
                                Some(&mx) if (mx as usize) >= rec.vars.len() => continue, // not a variable of this run: cannot be stated here
                                Some(&mx) => {
                                    smax = Some(smax.map_or(mx, |s| s.max(mx)));
                                    usable.push(a);
                                }
                                None => usable.push(a),
                            }
                        }
                        if let Some(mx) = smax {
                            if mx >= n_inputs {
                                need(z, mx, &mut declared, &mut defs_done);
                            }
                        }
                        z.push();
                        for a in usable.iter() {
                            // siblings may mention auxiliaries of this run only if they were created before position i,
                            // which holds because the prefix (hence the sequence of operations) is identical
                            z.assert(&a.negated().smt(&nm));
                        }
                        match z.check_model(&input_names) {
                            (Answer::Unsat, _) => {}
                            (Answer::Unknown(_), _) => open_branches += 1,
                            (Answer::Sat, m) => match m {
                                Some(m) => {
                                    let mut exp: Vec<crate::ctx::Atom> = rec.pc[..i].to_vec();
                                    exp.push(atom.negated());
                                    // bound = i: the child re-examines position i with the enlarged sibling set
                                    work.push_back(Item { model: input_names.iter().map(|n| m.get(n).cloned().unwrap_or_else(BigInt::zero)).collect(), bound: i, expected: exp });
                                }
                                None => res.errors.push("could not read model".into()),
                            },
                        }
                        z.pop();
                    }
                    // concretisation of an input (v == value): control flow above it may be nondeterministic (hash order),
                    // so the prefix-keyed sibling set can miss values; additionally ask for a value of v never pinned so far
                    if atom.rel == crate::ctx::Rel::Eq {
                        if let Some((v, val)) = atom.p.pins() {
                            if (v as usize) < specs.len() {
                                let seen = pinned_seen.entry(v).or_default();
                                if !seen.contains(&val) {
                                    seen.push(val);
                                }
                                let key2 = {
                                    use std::hash::{Hash, Hasher};
                                    let mut hh = std::collections::hash_map::DefaultHasher::new();
                                    (0x9e37u64, ph, v).hash(&mut hh);
                                    let mut ss = seen.clone();
                                    ss.sort();
                                    ss.hash(&mut hh);
                                    hh.finish()
                                };
                                if seen_flips.insert(key2) {
                                    z.push();
                                    for val in seen.iter() {
                                        z.assert(&format!("(distinct {} {})", specs[v as usize].name, smt_big(val)));
                                    }
                                    match z.check_model(&input_names) {
                                        (Answer::Unsat, _) => {}
                                        (Answer::Unknown(_), _) => open_branches += 1,
                                        (Answer::Sat, m) => {
                                            if let Some(m) = m {
                                                let mut exp: Vec<crate::ctx::Atom> = rec.pc[..i].to_vec();
                                                exp.push(atom.negated());
                                                work.push_back(Item { model: input_names.iter().map(|n| m.get(n).cloned().unwrap_or_else(BigInt::zero)).collect(), bound: i, expected: exp });
                                            }
                                        }
                                    }
                                    z.pop();
                                }
                            }
                        }
                    }
                }
                z.assert(&atom.smt(&nm));
            }
            // ---- class query: Def ∧ PC ∧ ¬P   (all of PC is asserted in the current frame)
            let mut class_smt: Option<String> = None;
            if class_status == "proven" && budget.sample_only && !open.is_empty() {
                res.unknown_classes += 1;
                class_status = "sampled-only";
            }
            if class_status == "proven" {
                if open.is_empty() {
                    res.trivial += 1;
                    res.proven += 1;
                } else {
                    need(z, u32::MAX, &mut declared, &mut defs_done);
                    let negs: Vec<String> = open.iter().map(|o| format!("(not {})", o.1.smt(&nm))).collect();
                    let neg = if negs.len() == 1 { negs[0].clone() } else { format!("(or {})", negs.join(" ")) };
                    z.push();
                    z.assert(&neg);
                    let (ans, cm) = z.check_model(&input_names);
                    match &ans {
                        Answer::Unsat => res.proven += 1,
                        Answer::Unknown(_) => {
                            res.unknown_classes += 1;
                            class_status = "unknown";
                        }
                        Answer::Sat => {
                            let cand = cm.map(|m| input_names.iter().map(|n| m.get(n).cloned().unwrap_or_else(BigInt::zero)).collect::<Vec<_>>());
                            match cand {
                                Some(c) => {
                                    let pairs: Vec<(String, String)> = input_names.iter().cloned().zip(c.iter().map(|v| v.to_string())).collect();
                                    match native_verdict(h, &c) {
                                        Some(w) => {
                                            res.violations.push(Violation { harness: h.id(), what: w, inputs: pairs });
                                            class_status = "violation";
                                        }
                                        None => {
                                            res.errors.push(format!("solver counterexample {:?} does not reproduce natively (encoding problem)", pairs));
                                            class_status = "spurious";
                                        }
                                    }
                                }
                                None => res.errors.push("could not read counterexample model".into()),
                            }
                        }
                    }
                    z.pop();
                    class_smt = Some(neg);
                    // cross-check a sample of class queries with cvc5
                    if let (Some(c5), Some(neg)) = (self.cvc5.as_mut(), class_smt.as_ref()) {
                        if self.run_counter % self.cross_every == (seed % self.cross_every) {
                            c5.push();
                            for s in &specs {
                                c5.declare(&s.name);
                                if let Some(lo) = s.lo {
                                    c5.assert(&format!("(>= {} {})", s.name, smt_int(lo)));
                                }
                                if let Some(hi) = s.hi {
                                    c5.assert(&format!("(<= {} {})", s.name, smt_int(hi)));
                                }
                            }
                            for e in h.extra_smt() {
                                c5.assert(&e);
                            }
                            for f in &pre_formulas {
                                c5.assert(&f.smt(&|v| input_names[v as usize].clone()));
                            }
                            for v in rec.vars.iter().filter(|v| !v.is_input) {
                                c5.declare(&v.name);
                            }
                            for d in &rec.defs {
                                c5.assert(&d.smt(&nm));
                            }
                            for a in &rec.pc {
                                c5.assert(&a.smt(&nm));
                            }
                            c5.assert(neg);
                            let a2 = c5.check();
                            c5.pop();
                            res.cross_checked += 1;
                            let disagree = matches!((&ans, &a2), (Answer::Sat, Answer::Unsat) | (Answer::Unsat, Answer::Sat));
                            if disagree {
                                res.cross_disagree += 1;
                                res.errors.push(format!("z3 and cvc5 disagree on a class query (z3 {:?}, cvc5 {:?})", ans, a2));
                            }
                        }
                    }
                }
            }
            self.z3.pop();
            if res.samples.len() < 3 || (class_status != "proven" && res.samples.len() < 6) {
                res.samples.push(json!({
                    "engine": "S", "harness": h.id(), "model": model_pairs.iter().map(|(a, b)| format!("{}={}", a, b)).collect::<Vec<_>>().join(" "),
                    "path_condition": rec.pc.iter().take(12).map(|a| a.pretty(&nm)).collect::<Vec<_>>(),
                    "pc_len": rec.pc.len(), "aux_vars": rec.defs.len(), "obligations": rec.obligations.len(),
                    "open_obligations": open.iter().take(4).map(|o| format!("{}: {}", o.0, trunc(&o.1.pretty(&nm), 160))).collect::<Vec<_>>(),
                    "closed_obligations": rec.obligations.iter().filter(|o| o.1 == Formula::True).take(4).map(|o| trunc(&o.0, 160)).collect::<Vec<_>>(),
                    "status": class_status, "steps": rec.steps,
                }));
            }
        }
        res.open_branches = open_branches;
        res.divergences = divergences;
        if !stopped_early && res.stop_reason.is_empty() {
            if open_branches == 0 && divergences == 0 && res.budget_classes == 0 && res.errors.is_empty() && over_budget_paths == 0 {
                res.exhaustive = true;
                res.stop_reason = "path tree complete: every branch flip is explored or proven infeasible; runs were deterministic".into();
            } else {
                res.stop_reason = format!("path tree walked; {} undecided flips, {} divergences, {} budget-exhausted classes", open_branches, divergences, res.budget_classes);
            }
        }
        self.z3.pop();
        res.queries = self.z3.queries - q0.0;
        res.sat = self.z3.sat - q0.1;
        res.unsat = self.z3.unsat - q0.2;
        res.unknown = self.z3.unknown - q0.3;
        res.solver_s = (self.z3.time - q0.4).as_secs_f64();
        res.wall_s = t0.elapsed().as_secs_f64();
        let _ = Duration::ZERO;
        let _ = BTreeSet::<u32>::new();
        let _ = 0i64.to_i64();
        res
    }
}

/// the run reproduced the expected prefix: identical atoms, except that the last (flipped) one may be
/// refined by a multiway test (expected `p >= 0`, observed `p == 0` or `p > 0`, ...)
fn prefix_matches(pc: &[crate::ctx::Atom], expected: &[crate::ctx::Atom], vars: &[crate::ctx::VarInfo]) -> bool {
    if expected.is_empty() {
        return true;
    }
    let n = expected.len();
    if pc.len() + 1 < n || pc.len() < n - 1 || pc[..n - 1] != expected[..n - 1] {
        return false;
    }
    // the flipped condition itself: the run may record a refinement of it (multiway tests, a different
    // concretisation value); what matters is that it holds on this run's values
    let e = &expected[n - 1];
    let mut vs = BTreeSet::new();
    e.p.vars(&mut vs);
    if vs.iter().any(|&v| v as usize >= vars.len()) {
        return false;
    }
    e.rel.holds(&e.p.eval(&|v| vars[v as usize].value.clone()))
}

fn hash_atoms(pc: &[crate::ctx::Atom], n: usize) -> u64 {
    use std::hash::{Hash, Hasher};
    let mut h = std::collections::hash_map::DefaultHasher::new();
    for a in &pc[..n] {
        a.hash(&mut h);
    }
    h.finish()
}

fn hash_flip(pc: &[crate::ctx::Atom], i: usize) -> u64 {
    use std::hash::{Hash, Hasher};
    let mut h = std::collections::hash_map::DefaultHasher::new();
    for a in &pc[..i] {
        a.hash(&mut h);
    }
    pc[i].negated().hash(&mut h);
    0xf11bu64.hash(&mut h);
    h.finish()
}

pub enum ChildVerdict {
    Timeout,
    Reproduced(String),
    Fine,
    Unavailable,
}

/// `symx replay` of one input in a child process with a wall-clock limit (kills it on timeout)
pub fn native_in_child(harness: &str, property: &str, inputs: &[(String, String)], secs: u64) -> ChildVerdict {
    let Ok(exe) = std::env::current_exe() else { return ChildVerdict::Unavailable };
    let dir = std::env::temp_dir();
    let path = dir.join(format!("symx_child_{}_{}.json", std::process::id(), inputs.len()));
    let body = json!({"property": property, "engine": "symx", "harness": harness, "inputs": inputs});
    if std::fs::write(&path, body.to_string()).is_err() {
        return ChildVerdict::Unavailable;
    }
    let child = std::process::Command::new(exe).arg("replay").arg(&path).stdout(std::process::Stdio::piped()).stderr(std::process::Stdio::null()).spawn();
    let Ok(mut child) = child else { return ChildVerdict::Unavailable };
    let t0 = Instant::now();
    let verdict = loop {
        match child.try_wait() {
            Ok(Some(st)) => {
                let mut out = String::new();
                if let Some(mut o) = child.stdout.take() {
                    use std::io::Read;
                    let _ = o.read_to_string(&mut out);
                }
                break match st.code() {
                    Some(1) => ChildVerdict::Reproduced(out.trim().replace("REPRODUCED: ", "")),
                    Some(0) => ChildVerdict::Fine,
                    // killed by a signal / abort (e.g. allocation failure): treat like non-termination
                    None => ChildVerdict::Timeout,
                    _ => ChildVerdict::Unavailable,
                };
            }
            Ok(None) => {
                if t0.elapsed().as_secs() > secs {
                    let _ = child.kill();
                    let _ = child.wait();
                    break ChildVerdict::Timeout;
                }
                std::thread::sleep(Duration::from_millis(100));
            }
            Err(_) => break ChildVerdict::Unavailable,
        }
    };
    let _ = std::fs::remove_file(&path);
    verdict
}

fn smt_big(n: &BigInt) -> String {
    use num_traits::Signed;
    if n.is_negative() {
        format!("(- {})", -n)
    } else {
        n.to_string()
    }
}

fn smt_int(n: i64) -> String {
    if n < 0 {
        format!("(- {})", -(n as i128))
    } else {
        n.to_string()
    }
}

fn trunc(s: &str, n: usize) -> String {
    if s.len() <= n {
        s.to_string()
    } else {
        let mut e = n;
        while !s.is_char_boundary(e) {
            e -= 1;
        }
        format!("{}…", &s[..e])
    }
}
