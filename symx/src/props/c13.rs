//! C13 — sparse / dense containers implement ordinary matrix algebra; Trans composes linear maps
use crate::ctx::Rel;
use crate::explore::{Harness, InputSpec};
use crate::util::*;
use crate::vint::{VInt, VIntOps, VF};
use num_traits::{One, Zero};
use sprs::PermOwned;
use yui::{Ring, RingOps};
use yui_matrix::dense::Mat;
use yui_matrix::sparse::{SpMat, SpVec, Trans};
use yui_matrix::MatTrait;

#[derive(Clone, Copy, Debug, PartialEq)]
pub enum Kind {
    SpArith,
    SpStruct,
    Dense,
    Vecs,
    TransSeq,
}

pub struct Containers {
    pub kind: Kind,
    pub m: usize,
    pub n: usize,
    pub p: usize,
    pub variant: usize,
}

fn grid_add<R: Ring>(a: &Grid<R>, b: &Grid<R>) -> Grid<R>
where
    for<'x> &'x R: RingOps<R>,
{
    a.iter().zip(b).map(|(x, y)| x.iter().zip(y).map(|(s, t)| s + t).collect()).collect()
}
fn grid_sub<R: Ring>(a: &Grid<R>, b: &Grid<R>) -> Grid<R>
where
    for<'x> &'x R: RingOps<R>,
{
    a.iter().zip(b).map(|(x, y)| x.iter().zip(y).map(|(s, t)| s - t).collect()).collect()
}
fn grid_neg<R: Ring>(a: &Grid<R>) -> Grid<R>
where
    for<'x> &'x R: RingOps<R>,
{
    a.iter().map(|x| x.iter().map(|s| -s).collect()).collect()
}
fn grid_zero<R: Ring>(m: usize, n: usize) -> Grid<R>
where
    for<'x> &'x R: RingOps<R>,
{
    (0..m).map(|_| (0..n).map(|_| R::zero()).collect()).collect()
}
fn perms(n: usize) -> Vec<Vec<usize>> {
    if n == 0 {
        return vec![vec![]];
    }
    let mut out = Vec::new();
    for p in perms(n - 1) {
        for k in 0..n {
            let mut q = p.clone();
            q.insert(k, n - 1);
            out.push(q);
        }
    }
    out
}

fn eq_sp<I: VInt>(label: &str, a: &SpMat<I>, want: &Grid<I>, m: usize, n: usize)
where
    for<'x> &'x I: VIntOps<I>,
{
    I::oblige(&format!("{}: shape", label), VF::of_bool(a.shape() == (m, n)));
    if a.shape() != (m, n) {
        return;
    }
    if m == 0 || n == 0 {
        return;
    }
    oblige_grid_eq::<I, I>(label, &sp_to_grid(a), want);
}

/// a matrix equal to `g` whose storage contains explicit zeros wherever possible (g + x - x, columns from raw vectors)
fn with_stored_zeros<I: VInt>(g: &Grid<I>, m: usize, n: usize) -> SpMat<I>
where
    for<'x> &'x I: VIntOps<I>,
{
    SpMat::from_col_vecs(m, (0..n).map(|j| SpVec::from_sorted_entries(m, (0..m).map(|i| (i, g[i][j].clone())))))
}

impl Containers {
    fn run<I: VInt>(&self, xs: &[I])
    where
        for<'x> &'x I: VIntOps<I>,
    {
        let (m, n, p) = (self.m, self.n, self.p);
        match self.kind {
            Kind::SpArith => {
                let ga: Grid<I> = build_grid::<I, I>(m, n, &xs[..m * n]);
                let gb: Grid<I> = build_grid::<I, I>(m, n, &xs[m * n..2 * m * n]);
                let gc: Grid<I> = build_grid::<I, I>(n, p, &xs[2 * m * n..]);
                let mk = |g: &Grid<I>, r: usize, c: usize| -> SpMat<I> {
                    match self.variant {
                        0 => grid_to_sp(g, r, c),
                        1 => with_stored_zeros(g, r, c),
                        _ => SpMat::from_entries((r, c), (0..r).flat_map(|i| (0..c).map(move |j| (i, j))).map(|(i, j)| (i, j, g[i][j].clone()))),
                    }
                };
                let (a, b, c) = (mk(&ga, m, n), mk(&gb, m, n), mk(&gc, n, p));
                eq_sp("construction A", &a, &ga, m, n);
                eq_sp("A + B (ref,ref)", &(&a + &b), &grid_add(&ga, &gb), m, n);
                eq_sp("A + B (val,val)", &(a.clone() + b.clone()), &grid_add(&ga, &gb), m, n);
                eq_sp("A - B", &(&a - &b), &grid_sub(&ga, &gb), m, n);
                eq_sp("A - B (val,ref)", &(a.clone() - &b), &grid_sub(&ga, &gb), m, n);
                eq_sp("-A", &(-&a), &grid_neg(&ga), m, n);
                eq_sp("-A (val)", &(-a.clone()), &grid_neg(&ga), m, n);
                eq_sp("A * C", &(&a * &c), &grid_mul(&ga, &gc, n, p), m, p);
                eq_sp("A * C (val,val)", &(a.clone() * c.clone()), &grid_mul(&ga, &gc, n, p), m, p);
                eq_sp("transpose", &a.transpose(), &grid_transpose(&ga, n), n, m);
                // explicit zeros produced by cancellation: (A - A) stores zeros; algebra must not care
                let z = &a - &a;
                eq_sp("(A - A) + B", &(&z + &b), &gb, m, n);
                eq_sp("(A - A) - B", &(&z - &b), &grid_neg(&gb), m, n);
                eq_sp("B - (A - A)", &(&b - &z), &gb, m, n);
                let z0 = SpMat::<I>::zero((m, n));
                eq_sp("0 - B", &(&z0 - &b), &grid_neg(&gb), m, n);
                eq_sp("0 + B", &(z0.clone() + b.clone()), &gb, m, n);
                eq_sp("B - 0", &(b.clone() - z0.clone()), &gb, m, n);
                eq_sp("(A - A) * C", &(&z * &c), &grid_zero(m, p), m, p);
                I::oblige("is_zero(A - A)", VF::of_bool(z.is_zero()));
                let zero_a = ga.iter().all(|r| r.iter().all(|e| e.is_zero()));
                I::oblige("is_zero(A) agrees", VF::of_bool(a.is_zero() == zero_a));
                // sparse <-> dense
                let d = a.clone().into_dense();
                oblige_grid_eq::<I, I>("into_dense", &mat_to_grid(&d), &ga);
                eq_sp("dense -> sparse", &d.clone().into_sparse(), &ga, m, n);
                if m == n {
                    let id = SpMat::<I>::id(n);
                    eq_sp("I * A", &(&id * &a), &ga, m, n);
                    I::oblige("is_id(id)", VF::of_bool(id.is_id()));
                }
            }
            Kind::SpStruct => {
                let ga: Grid<I> = build_grid::<I, I>(m, n, &xs[..m * n]);
                let gb: Grid<I> = build_grid::<I, I>(m, p, &xs[m * n..m * n + m * p]);
                let a = if self.variant == 1 { with_stored_zeros(&ga, m, n) } else { grid_to_sp(&ga, m, n) };
                let b = if self.variant == 1 { with_stored_zeros(&gb, m, p) } else { grid_to_sp(&gb, m, p) };
                // permutations: entry (i,j) moves to (p(i), q(j))
                for pr in perms(m) {
                    for pc in perms(n) {
                        let (po, qo) = (PermOwned::new(pr.clone()), PermOwned::new(pc.clone()));
                        let r = a.permute(po.view(), qo.view());
                        let mut want = grid_zero::<I>(m, n);
                        for i in 0..m {
                            for j in 0..n {
                                want[pr[i]][pc[j]] = ga[i][j].clone();
                            }
                        }
                        eq_sp(&format!("permute {:?} {:?}", pr, pc), &r, &want, m, n);
                    }
                    let po = PermOwned::new(pr.clone());
                    let r = a.permute_rows(po.view());
                    let mut want = grid_zero::<I>(m, n);
                    for i in 0..m {
                        for j in 0..n {
                            want[pr[i]][j] = ga[i][j].clone();
                        }
                    }
                    eq_sp(&format!("permute_rows {:?}", pr), &r, &want, m, n);
                    // row_perm(p) * a == a.permute_rows(p)
                    eq_sp(&format!("from_row_perm {:?} * A", pr), &(&SpMat::<I>::from_row_perm(po.view()) * &a), &want, m, n);
                }
                for pc in perms(n) {
                    let qo = PermOwned::new(pc.clone());
                    let mut want = grid_zero::<I>(m, n);
                    for i in 0..m {
                        for j in 0..n {
                            want[i][pc[j]] = ga[i][j].clone();
                        }
                    }
                    eq_sp(&format!("permute_cols {:?}", pc), &a.permute_cols(qo.view()), &want, m, n);
                    eq_sp(&format!("A * from_col_perm {:?}", pc), &(&a * &SpMat::<I>::from_col_perm(qo.view())), &want, m, n);
                }
                // sub-matrices, 4-way split and recombination
                for i0 in 0..=m {
                    for i1 in i0..=m {
                        for j0 in 0..=n {
                            for j1 in j0..=n {
                                let rows: Vec<usize> = (i0..i1).collect();
                                let cols: Vec<usize> = (j0..j1).collect();
                                eq_sp(&format!("submat {}..{} {}..{}", i0, i1, j0, j1), &a.submat(i0..i1, j0..j1), &sub_grid(&ga, &rows, &cols), i1 - i0, j1 - j0);
                            }
                        }
                    }
                }
                for k in 0..=m {
                    for l in 0..=n {
                        let [x, y, z, w] = a.divide4((k, l));
                        let (r0, r1): (Vec<usize>, Vec<usize>) = ((0..k).collect(), (k..m).collect());
                        let (c0, c1): (Vec<usize>, Vec<usize>) = ((0..l).collect(), (l..n).collect());
                        eq_sp(&format!("divide4({},{}).0", k, l), &x, &sub_grid(&ga, &r0, &c0), k, l);
                        eq_sp(&format!("divide4({},{}).1", k, l), &y, &sub_grid(&ga, &r0, &c1), k, n - l);
                        eq_sp(&format!("divide4({},{}).2", k, l), &z, &sub_grid(&ga, &r1, &c0), m - k, l);
                        eq_sp(&format!("divide4({},{}).3", k, l), &w, &sub_grid(&ga, &r1, &c1), m - k, n - l);
                        eq_sp(&format!("combine_blocks(divide4({},{}))", k, l), &SpMat::combine_blocks([&x, &y, &z, &w]), &ga, m, n);
                    }
                }
                // concat / extend_cols / stack / columns
                let want_cat: Grid<I> = (0..m).map(|i| ga[i].iter().chain(gb[i].iter()).cloned().collect()).collect();
                eq_sp("concat", &a.concat(&b), &want_cat, m, n + p);
                let mut e = a.clone();
                e.extend_cols(b.clone());
                eq_sp("extend_cols", &e, &want_cat, m, n + p);
                let bt = b.transpose(); // p x m
                let at = a.transpose(); // n x m
                let want_stack: Grid<I> = grid_transpose(&ga, n).into_iter().chain(grid_transpose(&gb, p)).collect();
                eq_sp("stack", &at.stack(&bt), &want_stack, n + p, m);
                for j in 0..n {
                    let v = a.col_vec(j);
                    I::oblige("col_vec dim", VF::of_bool(v.dim() == m));
                    let dv = v.to_dense();
                    for i in 0..m {
                        I::oblige(&format!("col_vec({})[{}]", j, i), VF::zero(&dv[i] - &ga[i][j]));
                    }
                }
                let cols: Vec<SpVec<I>> = (0..n).map(|j| a.col_vec(j)).collect();
                eq_sp("from_col_vecs(col_vec)", &SpMat::from_col_vecs(m, cols), &ga, m, n);
            }
            Kind::Dense => {
                let ga: Grid<I> = build_grid::<I, I>(m, n, &xs[..m * n]);
                let gb: Grid<I> = build_grid::<I, I>(m, n, &xs[m * n..2 * m * n]);
                let gc: Grid<I> = build_grid::<I, I>(n, p, &xs[2 * m * n..2 * m * n + n * p]);
                let rest = &xs[2 * m * n + n * p..];
                let a: Mat<I> = Mat::from_data((m, n), ga.iter().flatten().cloned());
                let b: Mat<I> = Mat::from_data((m, n), gb.iter().flatten().cloned());
                let c: Mat<I> = Mat::from_data((n, p), gc.iter().flatten().cloned());
                let eqd = |label: &str, x: &Mat<I>, want: &Grid<I>, r: usize, cc: usize| {
                    I::oblige(&format!("{}: shape", label), VF::of_bool(x.shape() == (r, cc)));
                    if x.shape() == (r, cc) && r > 0 && cc > 0 {
                        oblige_grid_eq::<I, I>(label, &mat_to_grid(x), want);
                    }
                };
                eqd("A + B", &(&a + &b), &grid_add(&ga, &gb), m, n);
                eqd("A - B", &(&a - &b), &grid_sub(&ga, &gb), m, n);
                eqd("-A", &(-&a), &grid_neg(&ga), m, n);
                eqd("A * C", &(&a * &c), &grid_mul(&ga, &gc, n, p), m, p);
                eqd("A + B (val)", &(a.clone() + b.clone()), &grid_add(&ga, &gb), m, n);
                eqd("A * C (val)", &(a.clone() * c.clone()), &grid_mul(&ga, &gc, n, p), m, p);
                for i0 in 0..=m {
                    for i1 in i0..=m {
                        let rows: Vec<usize> = (i0..i1).collect();
                        let all: Vec<usize> = (0..n).collect();
                        eqd(&format!("submat_rows {}..{}", i0, i1), &a.submat_rows(i0..i1), &sub_grid(&ga, &rows, &all), i1 - i0, n);
                    }
                }
                for j0 in 0..=n {
                    for j1 in j0..=n {
                        let cols: Vec<usize> = (j0..j1).collect();
                        let all: Vec<usize> = (0..m).collect();
                        eqd(&format!("submat_cols {}..{}", j0, j1), &a.submat_cols(j0..j1), &sub_grid(&ga, &all, &cols), m, j1 - j0);
                    }
                }
                // the elementary operations the SNF / LLL routines are built from
                if m >= 2 && n >= 1 && rest.len() >= 4 {
                    let (x, y, z, w) = (&rest[0], &rest[1], &rest[2], &rest[3]);
                    let mut t = a.clone();
                    t.left_elementary([x, y, z, w], 0, 1);
                    let mut want = ga.clone();
                    for j in 0..n {
                        want[0][j] = &(x * &ga[0][j]) + &(y * &ga[1][j]);
                        want[1][j] = &(z * &ga[0][j]) + &(w * &ga[1][j]);
                    }
                    eqd("left_elementary", &t, &want, m, n);
                    let mut t = a.clone();
                    t.swap_rows(0, 1);
                    let mut want = ga.clone();
                    want.swap(0, 1);
                    eqd("swap_rows", &t, &want, m, n);
                    let mut t = a.clone();
                    t.mul_row(1, x);
                    let mut want = ga.clone();
                    for j in 0..n {
                        want[1][j] = &ga[1][j] * x;
                    }
                    eqd("mul_row", &t, &want, m, n);
                    let mut t = a.clone();
                    t.add_row_to(0, 1, x);
                    let mut want = ga.clone();
                    for j in 0..n {
                        want[1][j] = &ga[1][j] + &(x * &ga[0][j]);
                    }
                    eqd("add_row_to", &t, &want, m, n);
                }
                if n >= 2 && m >= 1 && rest.len() >= 4 {
                    let (x, y, z, w) = (&rest[0], &rest[1], &rest[2], &rest[3]);
                    // right_elementary([a,b,c,d], i, j): multiply [a c; b d] from the right on columns (i, j)
                    let mut t = a.clone();
                    t.right_elementary([x, y, z, w], 0, 1);
                    let mut want = ga.clone();
                    for i in 0..m {
                        want[i][0] = &(&ga[i][0] * x) + &(&ga[i][1] * y);
                        want[i][1] = &(&ga[i][0] * z) + &(&ga[i][1] * w);
                    }
                    eqd("right_elementary", &t, &want, m, n);
                    let mut t = a.clone();
                    t.swap_cols(0, 1);
                    let mut want = ga.clone();
                    for i in 0..m {
                        want[i].swap(0, 1);
                    }
                    eqd("swap_cols", &t, &want, m, n);
                    let mut t = a.clone();
                    t.mul_col(0, x);
                    let mut want = ga.clone();
                    for i in 0..m {
                        want[i][0] = &ga[i][0] * x;
                    }
                    eqd("mul_col", &t, &want, m, n);
                    let mut t = a.clone();
                    t.add_col_to(0, 1, x);
                    let mut want = ga.clone();
                    for i in 0..m {
                        want[i][1] = &ga[i][1] + &(x * &ga[i][0]);
                    }
                    eqd("add_col_to", &t, &want, m, n);
                }
                let zero_a = ga.iter().all(|r| r.iter().all(|e| e.is_zero()));
                I::oblige("Mat::is_zero", VF::of_bool(a.is_zero() == zero_a));
                if m == n {
                    let is_id = (0..m).all(|i| (0..n).all(|j| if i == j { ga[i][j].is_one() } else { ga[i][j].is_zero() }));
                    I::oblige("Mat::is_id", VF::of_bool(a.is_id() == is_id));
                }
                let is_diag = (0..m).all(|i| (0..n).all(|j| i == j || ga[i][j].is_zero()));
                I::oblige("Mat::is_diag", VF::of_bool(a.is_diag() == is_diag));
            }
            Kind::Vecs => {
                let gv: Vec<I> = xs[..n].to_vec();
                let gw: Vec<I> = xs[n..2 * n].to_vec();
                let ga: Grid<I> = build_grid::<I, I>(m, n, &xs[2 * n..2 * n + m * n]);
                let v = if self.variant == 1 { SpVec::from_sorted_entries(n, gv.iter().cloned().enumerate()) } else { SpVec::from_entries(n, gv.iter().cloned().enumerate()) };
                let w = SpVec::from(gw.clone());
                let a = if self.variant == 1 { with_stored_zeros(&ga, m, n) } else { grid_to_sp(&ga, m, n) };
                let eqv = |label: &str, x: &SpVec<I>, want: &Vec<I>| {
                    I::oblige(&format!("{}: dim", label), VF::of_bool(x.dim() == want.len()));
                    if x.dim() == want.len() {
                        // read the raw stored pairs
                        let mut d: Vec<I> = want.iter().map(|_| I::zero()).collect();
                        for (i, e) in x.iter() {
                            d[i] = &d[i] + e;
                        }
                        for i in 0..want.len() {
                            I::oblige(&format!("{}[{}]", label, i), VF::zero(&d[i] - &want[i]));
                        }
                    }
                };
                eqv("construction", &v, &gv);
                eqv("v + w", &(&v + &w), &gv.iter().zip(&gw).map(|(a, b)| a + b).collect());
                eqv("v - w", &(&v - &w), &gv.iter().zip(&gw).map(|(a, b)| a - b).collect());
                eqv("-v", &(-&v), &gv.iter().map(|a| -a).collect());
                eqv("A * v", &(&a * &v), &(0..m).map(|i| (0..n).fold(I::zero(), |s, j| &s + &(&ga[i][j] * &gv[j]))).collect());
                let dv = v.to_dense();
                for i in 0..n {
                    I::oblige(&format!("to_dense[{}]", i), VF::zero(&dv[i] - &gv[i]));
                }
                I::oblige("is_zero(v)", VF::of_bool(v.is_zero() == gv.iter().all(|e| e.is_zero())));
                for pr in perms(n) {
                    let po = PermOwned::new(pr.clone());
                    let mut want: Vec<I> = gv.iter().map(|_| I::zero()).collect();
                    for i in 0..n {
                        want[pr[i]] = gv[i].clone();
                    }
                    eqv(&format!("permute {:?}", pr), &v.permute(po.view()), &want);
                }
                for i0 in 0..=n {
                    for i1 in i0..=n {
                        eqv(&format!("subvec {}..{}", i0, i1), &v.subvec(i0..i1), &gv[i0..i1].to_vec());
                    }
                    let (l, r) = v.split(i0);
                    eqv(&format!("split({}).0", i0), &l, &gv[..i0].to_vec());
                    eqv(&format!("split({}).1", i0), &r, &gv[i0..].to_vec());
                }
                let cat: Vec<I> = gv.iter().chain(gw.iter()).cloned().collect();
                eqv("stack", &v.stack(&w), &cat);
                eqv("stack_vecs", &SpVec::stack_vecs([v.clone(), w.clone()]), &cat);
                let u = SpVec::<I>::unit(n.max(1), 0);
                I::oblige("unit", VF::of_bool(u.dim() == n.max(1)));
                eq_sp("into_mat", &v.clone().into_mat(), &gv.iter().map(|e| vec![e.clone()]).collect(), n, 1);
            }
            Kind::TransSeq => {
                // T: Z^n --F0 (m x n)--> Z^m --perm--> Z^m --F1 (p x m)--> Z^p, with arbitrary "backward" factors
                let mut at = 0;
                let mut take = |r: usize, c: usize| -> Grid<I> {
                    let g = build_grid::<I, I>(r, c, &xs[at..at + r * c]);
                    at += r * c;
                    g
                };
                let (f0, b0) = (take(m, n), take(n, m));
                let (f1, b1) = (take(p, m), take(m, p));
                let gv: Vec<I> = xs[at..at + n].to_vec();
                let gw: Vec<I> = xs[at + n..at + n + p].to_vec();
                let pr = &perms(m)[self.variant % perms(m).len()];
                let po = PermOwned::new(pr.clone());
                // reference permutation matrices: forward = row perm (entry i -> pr[i])
                let mut pf = grid_zero::<I>(m, m);
                let mut pb = grid_zero::<I>(m, m);
                for i in 0..m {
                    pf[pr[i]][i] = I::one();
                    pb[i][pr[i]] = I::one();
                }
                let want_f = grid_mul(&grid_mul(&f1, &pf, m, m), &f0, m, n); // p x n
                let want_b = grid_mul(&grid_mul(&b0, &pb, m, m), &b1, m, p); // n x p
                let build = |order: usize| -> Trans<I> {
                    let mut t = Trans::new(grid_to_sp(&f0, m, n), grid_to_sp(&b0, n, m));
                    match order {
                        0 => {
                            t.append_perm(po.view());
                            t.append(grid_to_sp(&f1, p, m), grid_to_sp(&b1, m, p));
                        }
                        _ => {
                            let mut u = Trans::id(m);
                            u.append_perm(po.view());
                            let u2 = Trans::new(grid_to_sp(&f1, p, m), grid_to_sp(&b1, m, p));
                            t.merge(u.merged(&u2));
                        }
                    }
                    t
                };
                for order in 0..2 {
                    let mut t = build(order);
                    I::oblige("dims", VF::of_bool(t.src_dim() == n && t.tgt_dim() == p));
                    for phase in 0..2 {
                        eq_sp(&format!("forward_mat (order {}, phase {})", order, phase), &t.forward_mat(), &want_f, p, n);
                        eq_sp(&format!("backward_mat (order {}, phase {})", order, phase), &t.backward_mat(), &want_b, n, p);
                        let fv = t.forward(&SpVec::from(gv.clone())).to_dense();
                        for i in 0..p {
                            let want = (0..n).fold(I::zero(), |s, j| &s + &(&want_f[i][j] * &gv[j]));
                            I::oblige(&format!("forward(v)[{}] (order {}, phase {})", i, order, phase), VF::zero(&fv[i] - &want));
                        }
                        let bw = t.backward(&SpVec::from(gw.clone())).to_dense();
                        for i in 0..n {
                            let want = (0..p).fold(I::zero(), |s, j| &s + &(&want_b[i][j] * &gw[j]));
                            I::oblige(&format!("backward(w)[{}] (order {}, phase {})", i, order, phase), VF::zero(&bw[i] - &want));
                        }
                        t.reduce();
                    }
                    // sub: select coordinates
                    // sub: proper selections, full-length reorderings, repeated indices
                    let mut idx_lists: Vec<Vec<usize>> = vec![(0..p).rev().step_by(2).collect(), (0..p).rev().collect(), (0..p).collect(), vec![]];
                    if p >= 1 {
                        idx_lists.push((0..p).map(|i| if i == 1 { 0 } else { i }).collect());
                        idx_lists.push(vec![p - 1]);
                    }
                    for idx in idx_lists {
                        let s = t.sub(&idx);
                        let wf: Grid<I> = idx.iter().map(|&i| want_f[i].clone()).collect();
                        eq_sp(&format!("sub.forward_mat (order {})", order), &s.forward_mat(), &wf, idx.len(), n);
                        let wb: Grid<I> = (0..n).map(|i| idx.iter().map(|&j| want_b[i][j].clone()).collect()).collect();
                        eq_sp(&format!("sub.backward_mat (order {})", order), &s.backward_mat(), &wb, n, idx.len());
                    }
                }
                let id = Trans::<I>::id(n);
                I::oblige("id.is_id", VF::of_bool(id.is_id()));
                eq_sp("id.forward_mat", &id.forward_mat(), &grid_id::<I>(n), n, n);
            }
        }
    }
}

impl Harness for Containers {
    fn id(&self) -> String {
        format!("containers/{:?}/{}x{}x{}/v{}", self.kind, self.m, self.n, self.p, self.variant)
    }
    fn functions(&self) -> Vec<&'static str> {
        match self.kind {
            Kind::SpArith => vec!["SpMat::{from_dense_data,from_entries,from_col_vecs,add,sub,neg,mul,transpose,is_zero,into_dense,id,is_id}", "Mat::into_sparse"],
            Kind::SpStruct => vec!["SpMat::{permute,permute_rows,permute_cols,from_row_perm,from_col_perm,submat,divide4,combine_blocks,concat,stack,extend_cols,col_vec,from_col_vecs,extract}"],
            Kind::Dense => vec!["Mat::{from_data,add,sub,neg,mul,submat_rows,submat_cols,left_elementary,right_elementary,swap_rows,swap_cols,mul_row,mul_col,add_row_to,add_col_to,is_zero,is_id,is_diag}"],
            Kind::Vecs => vec!["SpVec::{from_entries,from_sorted_entries,from,add,sub,neg,to_dense,is_zero,permute,subvec,split,stack,stack_vecs,unit,into_mat}", "SpMat * SpVec"],
            Kind::TransSeq => vec!["Trans::{new,id,append,append_perm,merge,merged,reduce,sub,forward,backward,forward_mat,backward_mat}"],
        }
    }
    fn inputs(&self) -> Vec<InputSpec> {
        let (m, n, p) = (self.m, self.n, self.p);
        let cnt = match self.kind {
            Kind::SpArith => 2 * m * n + n * p,
            Kind::SpStruct => m * n + m * p,
            Kind::Dense => 2 * m * n + n * p + 4,
            Kind::Vecs => 2 * n + m * n,
            Kind::TransSeq => 2 * m * n + 2 * p * m + n + p,
        };
        // loop-free in the scalars: the claim is unbounded in the entries (no box)
        (0..cnt).map(|i| InputSpec::free(&format!("x{}", i))).collect()
    }
    fn body<I: VInt>(&self, xs: &[I])
    where
        for<'x> &'x I: VIntOps<I>,
    {
        self.run::<I>(xs)
    }
}

pub fn configs(tier: crate::registry::Tier, seed: u64) -> Vec<crate::registry::Entry> {
    use crate::registry::{entry, Tier};
    let mut v = Vec::new();
    for variant in 0..3 {
        for (m, n, p) in [(2, 2, 2), (1, 2, 1), (2, 1, 2), (0, 2, 1), (2, 0, 2)] {
            v.push(entry(Containers { kind: Kind::SpArith, m, n, p, variant }, 4096, 90.0));
        }
    }
    for variant in 0..2 {
        for (m, n, p) in [(2, 2, 1), (1, 2, 2), (2, 1, 0), (0, 1, 1)] {
            v.push(entry(Containers { kind: Kind::SpStruct, m, n, p, variant }, 4096, 90.0));
        }
        for (m, n) in [(2, 2), (1, 3), (2, 0)] {
            v.push(entry(Containers { kind: Kind::Vecs, m, n, p: 0, variant }, 4096, 90.0));
        }
    }
    for (m, n, p) in [(2, 2, 2), (1, 2, 1), (2, 1, 0), (0, 0, 0)] {
        v.push(entry(Containers { kind: Kind::Dense, m, n, p, variant: 0 }, 4096, 90.0));
    }
    for variant in [seed as usize % 2, 1 - seed as usize % 2] {
        for (m, n, p) in [(2, 2, 1), (2, 1, 2), (1, 2, 2)] {
            v.push(entry(Containers { kind: Kind::TransSeq, m, n, p, variant }, 4096, 90.0));
        }
    }
    if tier == Tier::Thorough {
        for variant in 0..2 {
            v.push(entry(Containers { kind: Kind::SpArith, m: 3, n: 2, p: 2, variant }, 3000, 600.0));
            v.push(entry(Containers { kind: Kind::SpStruct, m: 3, n: 2, p: 1, variant }, 3000, 600.0));
            v.push(entry(Containers { kind: Kind::SpStruct, m: 2, n: 3, p: 1, variant }, 3000, 600.0));
            v.push(entry(Containers { kind: Kind::Vecs, m: 2, n: 3, p: 0, variant }, 3000, 600.0));
        }
        for variant in 0..6 {
            v.push(entry(Containers { kind: Kind::TransSeq, m: 3, n: 2, p: 2, variant }, 3000, 600.0));
        }
        v.push(entry(Containers { kind: Kind::Dense, m: 3, n: 3, p: 2, variant: 0 }, 3000, 600.0));
    }
    v
}
