//! C11 — pivot search returns an acyclic (triangular) pivot set   [single worker schedule only]
use crate::ctx::Rel;
use crate::explore::{Harness, InputSpec};
use crate::util::*;
use crate::vint::{VInt, VIntOps, VF};
use num_traits::{One, Zero};
use yui::{Ring, RingOps};
use yui_matrix::sparse::pivot::{find_pivots, perms_by_pivots, PivotCondition, PivotType};
use yui_matrix::sparse::SpMat;
use yui_matrix::MatTrait;

pub struct Pivots {
    pub m: usize,
    pub n: usize,
    pub b: i64,
    pub rows: bool,
    pub cond: u8, // 0 One, 1 AnyUnit, 2 Weight(1), 3 Weight(2)
    pub stored_zeros: bool,
}

impl Pivots {
    fn cond(&self) -> PivotCondition {
        match self.cond {
            0 => PivotCondition::One,
            1 => PivotCondition::AnyUnit,
            2 => PivotCondition::Weight(1.0),
            _ => PivotCondition::Weight(2.0),
        }
    }
}

impl Harness for Pivots {
    fn id(&self) -> String {
        format!("pivots/{}/{:?}/{}x{}/B{}{}", if self.rows { "Rows" } else { "Cols" }, self.cond(), self.m, self.n, self.b, if self.stored_zeros { "/stored0" } else { "" })
    }
    fn functions(&self) -> Vec<&'static str> {
        vec!["pivot::{find_pivots,perms_by_pivots}", "PivotFinder::{new,find_pivots,find_fl_pivots,find_fl_col_pivots,find_cycle_free_pivots(_m),result}", "MatrixStr::new / PivotCondition::is_cand",
             "yui::algo::top_sort", "sparse::util::perm_for_indices", "SpMat::permute"]
    }
    fn inputs(&self) -> Vec<InputSpec> {
        (0..self.m * self.n).map(|k| InputSpec::boxed(&format!("a{}{}", k / self.n, k % self.n), self.b)).collect()
    }
    fn body<I: VInt>(&self, xs: &[I])
    where
        for<'x> &'x I: VIntOps<I>,
    {
        let (m, n) = (self.m, self.n);
        let g: Grid<I> = build_grid::<I, I>(m, n, xs);
        let a: SpMat<I> = if self.stored_zeros {
            SpMat::from_col_vecs(m, (0..n).map(|j| yui_matrix::sparse::SpVec::from_sorted_entries(m, (0..m).map(|i| (i, g[i][j].clone())))))
        } else {
            grid_to_sp(&g, m, n)
        };
        let t = if self.rows { PivotType::Rows } else { PivotType::Cols };
        let pivs = find_pivots(&a, t, self.cond());
        let r = pivs.len();
        I::oblige("pivots inside the matrix", VF::of_bool(pivs.iter().all(|&(i, j)| i < m && j < n)));
        if !pivs.iter().all(|&(i, j)| i < m && j < n) {
            return;
        }
        let rows: std::collections::BTreeSet<usize> = pivs.iter().map(|p| p.0).collect();
        let cols: std::collections::BTreeSet<usize> = pivs.iter().map(|p| p.1).collect();
        I::oblige("pivot rows pairwise distinct", VF::of_bool(rows.len() == r));
        I::oblige("pivot columns pairwise distinct", VF::of_bool(cols.len() == r));
        for (k, &(i, j)) in pivs.iter().enumerate() {
            let x = &g[i][j];
            // unit of Z: x = 1 or x = -1   (One and AnyUnit coincide over Z; Weight(w >= 1) too)
            I::oblige(&format!("pivot {} satisfies the condition", k), VF::Or(vec![VF::zero(x - &I::one()), VF::zero(x + &I::one())]));
        }
        // triangularity of the leading block, read off the pivot list directly ...
        for k in 0..r {
            for l in 0..r {
                let zero_expected = if self.rows { k > l } else { k < l };
                if zero_expected {
                    I::oblige(&format!("a[i_{},j_{}] = 0 (triangular)", k, l), VF::zero(g[pivs[k].0][pivs[l].1].clone()));
                }
            }
        }
        // ... and through the library's own permutation route
        if rows.len() == r && cols.len() == r {
            let (p, q) = perms_by_pivots(&a, &pivs);
            let b = sp_to_grid(&a.permute(p.view(), q.view()));
            for k in 0..r {
                I::oblige(&format!("permuted diagonal {} is the pivot", k), VF::zero(&b[k][k] - &g[pivs[k].0][pivs[k].1]));
                for l in 0..r {
                    let zero_expected = if self.rows { k > l } else { k < l };
                    if zero_expected {
                        I::oblige(&format!("permuted[{},{}] = 0", k, l), VF::zero(b[k][l].clone()));
                    }
                }
            }
        }
    }
}

pub fn configs(tier: crate::registry::Tier, _seed: u64) -> Vec<crate::registry::Entry> {
    use crate::registry::{entry, Tier};
    let mut v = Vec::new();
    for rows in [true, false] {
        for cond in 0..4u8 {
            for (m, n, b) in [(2, 2, 2), (2, 3, 1), (3, 2, 1), (3, 3, 1)] {
                if cond >= 1 && (m, n) == (3, 3) {
                    continue;
                }
                v.push(entry(Pivots { m, n, b, rows, cond, stored_zeros: false }, 3000, 90.0));
            }
        }
        v.push(entry(Pivots { m: 2, n: 2, b: 1, rows, cond: 0, stored_zeros: true }, 500, 30.0));
        v.push(entry(Pivots { m: 1, n: 3, b: 2, rows, cond: 1, stored_zeros: false }, 500, 30.0));
        v.push(entry(Pivots { m: 0, n: 2, b: 1, rows, cond: 0, stored_zeros: false }, 5, 5.0));
    }
    if tier == Tier::Thorough {
        for rows in [true, false] {
            for cond in [0u8, 3] {
                v.push(entry(Pivots { m: 3, n: 4, b: 1, rows, cond, stored_zeros: false }, 100000, 1800.0));
                v.push(entry(Pivots { m: 4, n: 3, b: 1, rows, cond, stored_zeros: false }, 100000, 1800.0));
                v.push(entry(Pivots { m: 3, n: 3, b: 2, rows, cond, stored_zeros: false }, 100000, 1800.0));
            }
        }
    }
    v
}
