//! C11 — pivot search returns an acyclic (triangular) pivot set   [single worker schedule only]
use crate::ctx::Rel;
use crate::explore::{Harness, InputSpec};
use crate::props::c09::RingSel;
use crate::util::*;
use crate::vint::{VInt, VIntOps, VF};
use num_traits::{One, Zero};
use yui::{Ring, RingOps};
use yui_matrix::sparse::pivot::{find_pivots, perms_by_pivots, PivotCondition, PivotType};
use yui_matrix::sparse::SpMat;
use yui_matrix::MatTrait;

pub struct Pivots {
    pub ring: RingSel,
    pub m: usize,
    pub n: usize,
    pub b: i64,
    pub rows: bool,
    pub cond: u8, // 0 One, 1 AnyUnit, 2 Weight(1), 3 Weight(2)
    pub stored_zeros: bool,
    /// entries range over 0..=b instead of -b..=b
    pub nonneg: bool,
}

impl Pivots {
    fn cond(&self) -> PivotCondition {
        match self.cond {
            0 => PivotCondition::One,
            1 => PivotCondition::AnyUnit,
            2 => PivotCondition::Weight(1.0),
            _ => PivotCondition::Weight(2.0),
        }
    }
}

impl Harness for Pivots {
    fn id(&self) -> String {
        format!("pivots/{:?}/{}/{:?}/{}x{}/{}B{}{}", self.ring, if self.rows { "Rows" } else { "Cols" }, self.cond(), self.m, self.n, if self.nonneg { "nonneg-" } else { "" }, self.b, if self.stored_zeros { "/stored0" } else { "" })
    }
    fn functions(&self) -> Vec<&'static str> {
        vec!["pivot::{find_pivots,perms_by_pivots}", "PivotFinder::{new,find_pivots,find_fl_pivots,find_fl_col_pivots,find_cycle_free_pivots(_m),result}", "MatrixStr::new / PivotCondition::is_cand",
             "yui::algo::top_sort", "sparse::util::perm_for_indices", "SpMat::permute"]
    }
    fn inputs(&self) -> Vec<InputSpec> {
        let ar = if self.ring == RingSel::ZH { 2 } else { 1 };
        (0..self.m * self.n * ar).map(|k| {
            let name = format!("a{}{}{}", (k / ar) / self.n, (k / ar) % self.n, if ar == 1 { "" } else if k % 2 == 0 { "c" } else { "h" });
            if self.nonneg { InputSpec::range(&name, 0, self.b) } else { InputSpec::boxed(&name, self.b) }
        }).collect()
    }
    fn body<I: VInt>(&self, xs: &[I])
    where
        for<'x> &'x I: VIntOps<I>,
    {
        match self.ring {
            RingSel::Q => self.run::<I, yui::Ratio<I>>(xs),
            RingSel::ZH => self.run::<I, yui::poly::Poly<'H', I>>(xs),
            _ => self.run::<I, I>(xs),
        }
    }
}

impl Pivots {
    fn run<I, R>(&self, xs: &[I])
    where
        I: VInt,
        for<'x> &'x I: VIntOps<I>,
        R: VRing<I> + nalgebra_scalar::Sc,
        for<'x> &'x R: RingOps<R>,
    {
        let (m, n) = (self.m, self.n);
        let g: Grid<R> = build_grid::<I, R>(m, n, xs);
        let a: SpMat<R> = if self.stored_zeros {
            SpMat::from_col_vecs(m, (0..n).map(|j| yui_matrix::sparse::SpVec::from_sorted_entries(m, (0..m).map(|i| (i, g[i][j].clone())))))
        } else {
            grid_to_sp(&g, m, n)
        };
        let t = if self.rows { PivotType::Rows } else { PivotType::Cols };
        let pivs = find_pivots(&a, t, self.cond());
        let r = pivs.len();
        I::oblige("pivots inside the matrix", VF::of_bool(pivs.iter().all(|&(i, j)| i < m && j < n)));
        if !pivs.iter().all(|&(i, j)| i < m && j < n) {
            return;
        }
        let rows: std::collections::BTreeSet<usize> = pivs.iter().map(|p| p.0).collect();
        let cols: std::collections::BTreeSet<usize> = pivs.iter().map(|p| p.1).collect();
        I::oblige("pivot rows pairwise distinct", VF::of_bool(rows.len() == r));
        I::oblige("pivot columns pairwise distinct", VF::of_bool(cols.len() == r));
        for (k, &(i, j)) in pivs.iter().enumerate() {
            let x = &g[i][j];
            // every condition requires at least a unit (One: +-1; over Z and Z[H] the units are +-1; over Q any non-zero)
            I::oblige(&format!("pivot {} is a unit", k), x.unit_formula());
            if self.cond == 0 {
                I::oblige(&format!("pivot {} is +-1", k), VF::Or(vec![is_zero_f::<I, R>(&(x - &R::one())), is_zero_f::<I, R>(&(x + &R::one()))]));
            }
        }
        // triangularity of the leading block, read off the pivot list directly ...
        for k in 0..r {
            for l in 0..r {
                let zero_expected = if self.rows { k > l } else { k < l };
                if zero_expected {
                    oblige_zero::<I, R>(&format!("a[i_{},j_{}] = 0 (triangular)", k, l), &g[pivs[k].0][pivs[l].1]);
                }
            }
        }
        // ... and through the library's own permutation route
        if rows.len() == r && cols.len() == r {
            let (p, q) = perms_by_pivots(&a, &pivs);
            let b = sp_to_grid(&a.permute(p.view(), q.view()));
            for k in 0..r {
                oblige_zero::<I, R>(&format!("permuted diagonal {} is the pivot", k), &(&b[k][k] - &g[pivs[k].0][pivs[k].1]));
                for l in 0..r {
                    let zero_expected = if self.rows { k > l } else { k < l };
                    if zero_expected {
                        oblige_zero::<I, R>(&format!("permuted[{},{}] = 0", k, l), &b[k][l]);
                    }
                }
            }
        }
    }
}

pub fn configs(tier: crate::registry::Tier, _seed: u64) -> Vec<crate::registry::Entry> {
    use crate::registry::{entry, Tier};
    let mut v = Vec::new();
    for rows in [true, false] {
        for cond in 0..4u8 {
            for (m, n, b) in [(2, 2, 2), (2, 3, 1), (3, 2, 1), (3, 3, 1)] {
                if cond >= 1 && (m, n) == (3, 3) {
                    continue;
                }
                v.push(entry(Pivots { ring: RingSel::Z, m, n, b, rows, cond, stored_zeros: false, nonneg: false }, 10000, 90.0));
            }
        }
        v.push(entry(Pivots { ring: RingSel::Z, m: 2, n: 2, b: 1, rows, cond: 0, stored_zeros: true, nonneg: false }, 500, 30.0));
        v.push(entry(Pivots { ring: RingSel::Z, m: 1, n: 3, b: 2, rows, cond: 1, stored_zeros: false, nonneg: false }, 500, 30.0));
        // 3x3 with entries in {0,1,2}: unit / non-unit / zero patterns of a full 3x3 matrix
        v.push(entry(Pivots { ring: RingSel::Z, m: 3, n: 3, b: 2, rows, cond: 0, stored_zeros: false, nonneg: true }, 25000, 150.0));
        // wider box on a 2x3 / 3x2 shape: several distinct non-unit values in one row
        v.push(entry(Pivots { ring: RingSel::Z, m: 2, n: 3, b: 3, rows, cond: 0, stored_zeros: false, nonneg: false }, 20000, 120.0));
        v.push(entry(Pivots { ring: RingSel::Z, m: 3, n: 2, b: 3, rows, cond: 0, stored_zeros: false, nonneg: false }, 20000, 120.0));
        v.push(entry(Pivots { ring: RingSel::Z, m: 0, n: 2, b: 1, rows, cond: 0, stored_zeros: false, nonneg: false }, 5, 5.0));
    }
    // rings with other unit groups: Q (every non-zero entry is a unit) and Z[H] (non-PID, units +-1, default c_weight)
    for ring in [RingSel::Q, RingSel::ZH] {
        for rows in [true, false] {
            for cond in 0..4u8 {
                v.push(entry(Pivots { ring, m: 2, n: 2, b: if ring == RingSel::ZH { 1 } else { 2 }, rows, cond, stored_zeros: false, nonneg: false }, 1500, 90.0));
            }
            v.push(entry(Pivots { ring, m: 2, n: 3, b: 1, rows, cond: 1, stored_zeros: false, nonneg: false }, 1500, 90.0));
        }
    }
    if tier == Tier::Thorough {
        for rows in [true, false] {
            for cond in [0u8, 3] {
                v.push(entry(Pivots { ring: RingSel::Z, m: 3, n: 4, b: 1, rows, cond, stored_zeros: false, nonneg: false }, 100000, 1800.0));
                v.push(entry(Pivots { ring: RingSel::Z, m: 4, n: 3, b: 1, rows, cond, stored_zeros: false, nonneg: false }, 100000, 1800.0));
                v.push(entry(Pivots { ring: RingSel::Z, m: 3, n: 3, b: 2, rows, cond, stored_zeros: false, nonneg: false }, 100000, 1800.0));
            }
        }
    }
    v
}
