//! C10 — LLL and LLL-based Hermite normal form
use crate::ctx::Rel;
use crate::explore::{Harness, InputSpec};
use crate::props::c09::RingSel;
use crate::util::*;
use crate::vint::{VInt, VIntOps, VF};
use num_traits::{One, Zero};
use yui::{EisenInt, EucRing, EucRingOps, GaussInt, Ring, RingOps};
use yui_matrix::dense::lll::{lll, lll_hnf, LLLRing, LLLRingOps};
use yui_matrix::dense::Mat;
use yui_matrix::MatTrait;

fn inputs_for(ring: RingSel, m: usize, n: usize, b: i64) -> Vec<InputSpec> {
    let k = match ring {
        RingSel::Z => 1,
        _ => 2,
    };
    let mut v = Vec::new();
    for i in 0..m {
        for j in 0..n {
            for c in 0..k {
                v.push(InputSpec::boxed(&format!("a{}{}{}", i, j, if k == 1 { "" } else { ["r", "i"][c] }), b));
            }
        }
    }
    v
}

pub struct Hnf {
    pub ring: RingSel,
    pub m: usize,
    pub n: usize,
    pub b: i64,
    pub flags: [bool; 2],
}

impl Hnf {
    fn check<I, R>(&self, xs: &[I])
    where
        I: VInt,
        for<'x> &'x I: VIntOps<I>,
        R: VRing<I> + LLLRing<Int = I>,
        for<'x> &'x R: LLLRingOps<R>,
    {
        let (m, n) = (self.m, self.n);
        let a: Mat<R> = build_mat::<I, R>(m, n, xs);
        let (h, p, pinv) = lll_hnf(&a, self.flags);
        I::oblige("H shape", VF::of_bool(h.shape() == (m, n)));
        let (ag, hg) = (mat_to_grid(&a), mat_to_grid(&h));
        if let Some(p) = &p {
            let pa = grid_mul(&mat_to_grid(p), &ag, m, n);
            oblige_grid_eq::<I, R>("H = P A", &pa, &hg);
        }
        if let (Some(p), Some(pinv)) = (&p, &pinv) {
            let e = grid_mul(&mat_to_grid(p), &mat_to_grid(pinv), m, m);
            oblige_grid_eq::<I, R>("P Pinv = I", &e, &grid_id::<R>(m));
        }
        if let Some(pinv) = &pinv {
            let x = grid_mul(&mat_to_grid(pinv), &hg, m, n);
            oblige_grid_eq::<I, R>("A = Pinv H", &x, &ag);
        }
        // echelon form (the harness observes which entries are zero: these are the oracle's decisions)
        let piv: Vec<Option<usize>> = (0..m).map(|i| (0..n).find(|&j| !hg[i][j].is_zero())).collect();
        let mut last: Option<usize> = None;
        let mut seen_zero_row = false;
        for i in 0..m {
            match piv[i] {
                None => seen_zero_row = true,
                Some(j) => {
                    if seen_zero_row {
                        I::oblige(&format!("non-zero row {} below a zero row", i), VF::False);
                    }
                    if let Some(l) = last {
                        if j <= l {
                            I::oblige(&format!("pivot columns not strictly increasing at row {}", i), VF::False);
                        }
                    }
                    last = Some(j);
                    let x = &hg[i][j];
                    let u = x.normalizing_unit();
                    oblige_zero::<I, R>(&format!("pivot {} normalised", i), &(&(x * &u) - x));
                    let pn = x.norm().as_int().expect("norm is rational");
                    for k in 0..i {
                        let en = hg[k][j].norm().as_int().expect("norm is rational");
                        I::oblige(&format!("entry [{},{}] above pivot has smaller norm", k, j), VF::Atom(&pn - &en, Rel::Gt));
                    }
                }
            }
        }
    }
}

impl Harness for Hnf {
    fn id(&self) -> String {
        format!("lll_hnf/{:?}/{}x{}/B{}/flags{}{}", self.ring, self.m, self.n, self.b, self.flags[0] as u8, self.flags[1] as u8)
    }
    fn functions(&self) -> Vec<&'static str> {
        vec!["yui_matrix::dense::lll::lll_hnf", "LLLHNFCalc::{process,iterate,reduce,is_ok,result}", "LLLData::{reduce,lovasz_ok,swap,mul_row,add_row_to,nz_col_in}",
             "yui::DivRound::div_round (generic Integer impl, GaussInt, EisenInt)", "QuadInt::{mul,conj,norm,normalizing_unit}"]
    }
    fn inputs(&self) -> Vec<InputSpec> {
        inputs_for(self.ring, self.m, self.n, self.b)
    }
    fn body<I: VInt>(&self, xs: &[I])
    where
        for<'x> &'x I: VIntOps<I>,
    {
        match self.ring {
            RingSel::Z => self.check::<I, I>(xs),
            RingSel::Gauss => self.check::<I, GaussInt<I>>(xs),
            RingSel::Eisen => self.check::<I, EisenInt<I>>(xs),
            RingSel::Q | RingSel::ZH => unreachable!(),
        }
    }
}

/// LLL proper: rows assumed independent (Gram determinant != 0)
pub struct Lll {
    pub ring: RingSel,
    pub m: usize,
    pub n: usize,
    pub b: i64,
}

fn gram<I, R>(bg: &Grid<R>, n: usize) -> Grid<R>
where
    I: VInt,
    for<'x> &'x I: VIntOps<I>,
    R: VRing<I> + LLLRing<Int = I>,
    for<'x> &'x R: LLLRingOps<R>,
{
    let m = bg.len();
    (0..m)
        .map(|i| {
            (0..m)
                .map(|j| {
                    let mut s = R::zero();
                    for k in 0..n {
                        s += &bg[i][k] * &bg[j][k].conj();
                    }
                    s
                })
                .collect()
        })
        .collect()
}

impl Lll {
    /// Gram determinant != 0, computed with branch-free integer arithmetic on (re, omega)-components
    /// (QuadInt's own multiplication has zero-test shortcuts, which a precondition must not take).
    fn pre_r<I>(&self, xs: &[I])
    where
        I: VInt,
        for<'x> &'x I: VIntOps<I>,
    {
        let (m, n) = (self.m, self.n);
        let k = if self.ring == RingSel::Z { 1 } else { 2 };
        // element = (a, b) meaning a + b*w ; Z: b = 0
        let el = |i: usize, j: usize| -> (I, I) {
            let e = (i * n + j) * k;
            (xs[e].clone(), if k == 2 { xs[e + 1].clone() } else { I::zero() })
        };
        let ring = self.ring;
        let mul = move |x: &(I, I), y: &(I, I)| -> (I, I) {
            let (a, b) = x;
            let (c, d) = y;
            match ring {
                RingSel::Z => (a * c, I::zero()),
                // i^2 = -1
                RingSel::Gauss => (&(a * c) - &(b * d), &(a * d) + &(b * c)),
                // w^2 = w - 1
                RingSel::Eisen => (&(a * c) - &(b * d), &(&(a * d) + &(b * c)) + &(b * d)),
                RingSel::Q | RingSel::ZH => unreachable!(),
            }
        };
        let conj = move |x: &(I, I)| -> (I, I) {
            let (a, b) = x;
            match ring {
                RingSel::Z => (a.clone(), I::zero()),
                RingSel::Gauss => (a.clone(), -b),
                RingSel::Eisen => (a + b, -b),
                RingSel::Q | RingSel::ZH => unreachable!(),
            }
        };
        let add = |x: &(I, I), y: &(I, I)| (&x.0 + &y.0, &x.1 + &y.1);
        let sub = |x: &(I, I), y: &(I, I)| (&x.0 - &y.0, &x.1 - &y.1);
        let mut g: Vec<Vec<(I, I)>> = Vec::new();
        for i in 0..m {
            let mut row = Vec::new();
            for j in 0..m {
                let mut s = (I::zero(), I::zero());
                for c in 0..n {
                    s = add(&s, &mul(&el(i, c), &conj(&el(j, c))));
                }
                row.push(s);
            }
            g.push(row);
        }
        fn det<I: Clone>(a: &Vec<Vec<(I, I)>>, one: &(I, I), zero: &(I, I),
                         mul: &dyn Fn(&(I, I), &(I, I)) -> (I, I), add: &dyn Fn(&(I, I), &(I, I)) -> (I, I), sub: &dyn Fn(&(I, I), &(I, I)) -> (I, I)) -> (I, I) {
            let n = a.len();
            if n == 0 {
                return one.clone();
            }
            if n == 1 {
                return a[0][0].clone();
            }
            let mut s = zero.clone();
            for j in 0..n {
                let minor: Vec<Vec<(I, I)>> = (1..n).map(|i| (0..n).filter(|&c| c != j).map(|c| a[i][c].clone()).collect()).collect();
                let t = mul(&a[0][j], &det(&minor, one, zero, mul, add, sub));
                s = if j % 2 == 0 { add(&s, &t) } else { sub(&s, &t) };
            }
            s
        }
        let d = det(&g, &(I::one(), I::zero()), &(I::zero(), I::zero()), &mul, &add, &sub);
        I::assume(VF::Or(vec![VF::nonzero(d.0), VF::nonzero(d.1)]));
    }
    fn check<I, R>(&self, xs: &[I])
    where
        I: VInt,
        for<'x> &'x I: VIntOps<I>,
        R: VRing<I> + LLLRing<Int = I>,
        for<'x> &'x R: LLLRingOps<R>,
    {
        let (m, n) = (self.m, self.n);
        let a: Mat<R> = build_mat::<I, R>(m, n, xs);
        let (b, p) = lll(&a, true);
        let p = p.expect("transformation requested");
        let (ag, bg, pg) = (mat_to_grid(&a), mat_to_grid(&b), mat_to_grid(&p));
        oblige_grid_eq::<I, R>("B = P A", &grid_mul(&pg, &ag, m, n), &bg);
        I::oblige("det P is a unit", grid_det(&pg).unit_formula());
        // Gram--Schmidt data of B in fraction-free form
        let g = gram::<I, R>(&bg, n);
        let idx: Vec<usize> = (0..m).collect();
        // D[i] = det G[0..=i, 0..=i]  (a rational integer)
        let d: Vec<I> = (0..m).map(|i| grid_det(&sub_grid(&g, &idx[..=i], &idx[..=i])).as_int().unwrap_or_else(|| {
            I::oblige("Gram determinant is rational", VF::False);
            I::zero()
        })).collect();
        // lambda[i][j] = det of G[0..=j,0..=j] with its last row replaced by row i  (= D[j] * mu_ij), j < i
        let lam = |i: usize, j: usize| -> R {
            let mut rows: Vec<usize> = idx[..j].to_vec();
            rows.push(i);
            // <b_i, b_k> sits at g[i][k]; the code's convention is lambda = sum b_i conj(c_j): use row i against columns 0..=j
            grid_det(&sub_grid(&g, &rows, &idx[..=j]))
        };
        let (al_p, al_q) = R::alpha();
        let (al_p, al_q) = (al_p.as_int().unwrap(), al_q.as_int().unwrap());
        for i in 0..m {
            for j in 0..i {
                let l = lam(i, j);
                match self.ring {
                    RingSel::Z | RingSel::Gauss => {
                        // |component of mu| <= 1/2  <=>  D_j - 2|l_c| >= 0
                        for (c, lc) in l.zero_comps().into_iter().enumerate() {
                            let two = I::lit(2);
                            I::oblige(&format!("size-reduced mu[{},{}] comp {}", i, j, c),
                                VF::And(vec![VF::Atom(&d[j] - &(&two * &lc), Rel::Ge), VF::Atom(&d[j] + &(&two * &lc), Rel::Ge)]));
                        }
                    }
                    RingSel::Q | RingSel::ZH => unreachable!(),
                    RingSel::Eisen => {
                        // nearest Eisenstein integer: |mu|^2 <= 1/3 < 1  =>  N(l) * 3 <= D_j^2  (weaker: N(l) < D_j^2 is what reduction needs)
                        let nl = l.norm().as_int().unwrap();
                        I::oblige(&format!("size-reduced mu[{},{}] (norm)", i, j), VF::Atom(&(&d[j] * &d[j]) - &nl, Rel::Gt));
                    }
                }
            }
        }
        for k in 1..m {
            let d0 = if k >= 2 { d[k - 2].clone() } else { I::one() };
            let nl = lam(k, k - 1).norm().as_int().unwrap();
            let lhs = &al_q * &(&(&d0 * &d[k]) + &nl);
            let rhs = &al_p * &(&d[k - 1] * &d[k - 1]);
            I::oblige(&format!("Lovasz condition at {}", k), VF::Atom(&lhs - &rhs, Rel::Ge));
        }
    }
}

impl Harness for Lll {
    fn id(&self) -> String {
        format!("lll/{:?}/{}x{}/B{}", self.ring, self.m, self.n, self.b)
    }
    fn functions(&self) -> Vec<&'static str> {
        vec!["yui_matrix::dense::lll::lll", "LLLCalc::{process,iterate,result}", "LLLData::{setup,reduce,lovasz_ok,swap,add_row_to}", "lll::orthogonalize", "yui::DivRound::div_round"]
    }
    fn inputs(&self) -> Vec<InputSpec> {
        inputs_for(self.ring, self.m, self.n, self.b)
    }
    fn pre<I: VInt>(&self, xs: &[I])
    where
        for<'x> &'x I: VIntOps<I>,
    {
        self.pre_r::<I>(xs)
    }
    fn body<I: VInt>(&self, xs: &[I])
    where
        for<'x> &'x I: VIntOps<I>,
    {
        match self.ring {
            RingSel::Z => self.check::<I, I>(xs),
            RingSel::Gauss => self.check::<I, GaussInt<I>>(xs),
            RingSel::Eisen => self.check::<I, EisenInt<I>>(xs),
            RingSel::Q | RingSel::ZH => unreachable!(),
        }
    }
}

pub fn configs(tier: crate::registry::Tier, _seed: u64) -> Vec<crate::registry::Entry> {
    use crate::registry::{entry, Tier};
    let mut v = Vec::new();
    for (ring, m, n, b, cls, secs) in [
        (RingSel::Z, 1, 2, 4, 100, 20.0), (RingSel::Z, 2, 1, 4, 300, 60.0), (RingSel::Z, 2, 2, 2, 600, 120.0), (RingSel::Z, 2, 3, 1, 600, 120.0),
        (RingSel::Z, 3, 1, 2, 600, 120.0), (RingSel::Z, 3, 2, 1, 800, 150.0), (RingSel::Z, 0, 2, 1, 5, 5.0), (RingSel::Z, 1, 0, 1, 5, 5.0),
        (RingSel::Gauss, 2, 1, 1, 600, 120.0), (RingSel::Eisen, 2, 1, 1, 600, 120.0), (RingSel::Gauss, 1, 2, 1, 100, 30.0),
    ] {
        v.push(entry(Hnf { ring, m, n, b, flags: [true, true] }, cls, secs));
    }
    v.push(entry(Hnf { ring: RingSel::Z, m: 2, n: 2, b: 1, flags: [false, false] }, 300, 40.0));
    v.push(entry(Hnf { ring: RingSel::Z, m: 2, n: 2, b: 1, flags: [true, false] }, 300, 40.0));
    for (ring, m, n, b, cls, secs) in [(RingSel::Z, 1, 2, 3, 50, 10.0), (RingSel::Z, 2, 2, 2, 600, 120.0), (RingSel::Z, 2, 3, 1, 600, 120.0), (RingSel::Gauss, 2, 2, 1, 600, 120.0), (RingSel::Eisen, 2, 1, 1, 400, 60.0), (RingSel::Z, 3, 3, 2, 300, 100.0)] {
        v.push(entry(Lll { ring, m, n, b }, cls, secs));
    }
    // 4 and 5 rows: the queries are beyond the solver; solver-sampled inputs only (bug hunting, nothing is reported as proven)
    v.push(crate::registry::sampled(Lll { ring: RingSel::Z, m: 4, n: 4, b: 9 }, if tier == Tier::Thorough { 400 } else { 60 }, 200.0));
    v.push(crate::registry::sampled(Lll { ring: RingSel::Z, m: 5, n: 5, b: 9 }, if tier == Tier::Thorough { 200 } else { 25 }, 200.0));
    v.push(crate::registry::sampled(Hnf { ring: RingSel::Z, m: 4, n: 4, b: 9, flags: [true, true] }, if tier == Tier::Thorough { 400 } else { 60 }, 200.0));
    if tier == Tier::Thorough {
        for (ring, m, n, b, cls, secs) in [(RingSel::Z, 2, 2, 4, 5000, 900.0), (RingSel::Z, 3, 3, 1, 5000, 900.0), (RingSel::Z, 3, 2, 2, 5000, 900.0), (RingSel::Gauss, 2, 2, 1, 5000, 900.0), (RingSel::Eisen, 2, 2, 1, 5000, 900.0)] {
            v.push(entry(Hnf { ring, m, n, b, flags: [true, true] }, cls, secs));
        }
        for (ring, m, n, b, cls, secs) in [(RingSel::Z, 3, 3, 1, 5000, 900.0), (RingSel::Z, 2, 2, 5, 5000, 900.0), (RingSel::Z, 2, 3, 2, 5000, 900.0), (RingSel::Gauss, 2, 2, 1, 5000, 900.0)] {
            v.push(entry(Lll { ring, m, n, b }, cls, secs));
        }
    }
    v
}
