//! C09 — Smith normal form
use crate::ctx::Rel;
use crate::explore::{Harness, InputSpec};
use crate::util::*;
use crate::vint::{VInt, VIntOps, VF};
use num_traits::{One, Zero};
use std::marker::PhantomData;
use yui::{EucRing, EucRingOps, GaussInt, EisenInt, Ring, RingOps};
use yui_matrix::dense::snf::{snf, SnfCalc};
use yui_matrix::dense::Mat;
use yui_matrix::MatTrait;

#[derive(Clone, Copy, Debug, PartialEq)]
pub enum RingSel {
    Z,
    Gauss,
    Eisen,
    Q,
    /// Z[H] = Poly<'H', Z>: a non-PID with units +-1 (entries a + bH)
    ZH,
}

pub struct Snf {
    pub ring: RingSel,
    pub m: usize,
    pub n: usize,
    pub b: i64,
    pub flags: [bool; 4],
    pub lll_path: bool,
    /// only the diagonal entries are inputs (off-diagonal entries are 0): exercises diag_normalize on its own
    pub diag: bool,
}

impl Snf {
    /// the path that i64 / i128 / BigInt / Gauss / Eisenstein matrices really take (LLL-HNF preprocessing first),
    /// reached for the symbolic scalar through the cfg(yui_verif) hook SnfCalc::process_with_lll
    fn check_lll<I, R>(&self, xs: &[I])
    where
        I: VInt,
        for<'x> &'x I: VIntOps<I>,
        R: VRing<I> + yui_matrix::dense::lll::LLLRing,
        for<'x> &'x R: yui_matrix::dense::lll::LLLRingOps<R>,
    {
        self.check_with::<I, R>(xs, &|a: &Mat<R>, flags| {
            let mut calc = SnfCalc::new(a.clone(), flags);
            calc.process_with_lll();
            calc.result()
        })
    }
    fn check<I, R>(&self, xs: &[I])
    where
        I: VInt,
        for<'x> &'x I: VIntOps<I>,
        R: VRing<I> + EucRing,
        for<'x> &'x R: EucRingOps<R>,
    {
        self.check_with::<I, R>(xs, &|a: &Mat<R>, flags| snf(a, flags))
    }
    fn check_with<I, R>(&self, xs: &[I], run: &dyn Fn(&Mat<R>, [bool; 4]) -> yui_matrix::dense::snf::SnfResult<R>)
    where
        I: VInt,
        for<'x> &'x I: VIntOps<I>,
        R: VRing<I> + EucRing,
        for<'x> &'x R: EucRingOps<R>,
    {
        let (m, n) = (self.m, self.n);
        let a: Mat<R> = if self.diag {
            let k = R::ARITY;
            Mat::from_data((m, n), (0..m * n).map(|e| if e / n == e % n { R::build(&xs[(e / n) * k..(e / n + 1) * k]) } else { R::zero() }))
        } else {
            build_mat::<I, R>(m, n, xs)
        };
        let res = run(&a, self.flags);
        let d = res.result().clone();
        let ag = mat_to_grid(&a);
        let dg = mat_to_grid(&d);
        // D diagonal, non-zeros first, normalised, divisibility chain
        let r = m.min(n);
        for i in 0..m {
            for j in 0..n {
                if i != j {
                    oblige_zero::<I, R>(&format!("D off-diagonal [{},{}]", i, j), &dg[i][j]);
                }
            }
        }
        let mut seen_zero = false;
        for i in 0..r {
            let x = &dg[i][i];
            // the harness observes zero-ness (this refines the class; it is the oracle's decision)
            if x.is_zero() {
                seen_zero = true;
                continue;
            }
            if seen_zero {
                I::oblige(&format!("non-zero diagonal entry {} after a zero", i), VF::False);
            }
            // normalised: multiplying by the normalising unit changes nothing
            let u = x.normalizing_unit();
            oblige_zero::<I, R>(&format!("D[{}] normalised", i), &(&(x * &u) - x));
            if i + 1 < r && !dg[i + 1][i + 1].is_zero() {
                let rem = &dg[i + 1][i + 1] % x;
                oblige_zero::<I, R>(&format!("D[{}] | D[{}]", i, i + 1), &rem);
            }
        }
        // certificates
        let [p, pinv, q, qinv] = res.trans();
        if let (Some(p), Some(q)) = (p, q) {
            let pa = grid_mul(&mat_to_grid(p), &ag, m, n);
            let paq = grid_mul(&pa, &mat_to_grid(q), n, n);
            oblige_grid_eq::<I, R>("D = P A Q", &paq, &dg);
        }
        if let (Some(p), Some(pinv)) = (p, pinv) {
            let e = grid_mul(&mat_to_grid(p), &mat_to_grid(pinv), m, m);
            oblige_grid_eq::<I, R>("P Pinv = I", &e, &grid_id::<R>(m));
        }
        if let (Some(q), Some(qinv)) = (q, qinv) {
            let e = grid_mul(&mat_to_grid(q), &mat_to_grid(qinv), n, n);
            oblige_grid_eq::<I, R>("Q Qinv = I", &e, &grid_id::<R>(n));
        }
        if let (Some(pinv), Some(qinv)) = (pinv, qinv) {
            // A = Pinv D Qinv
            let x = grid_mul(&mat_to_grid(pinv), &dg, m, n);
            let y = grid_mul(&x, &mat_to_grid(qinv), n, n);
            oblige_grid_eq::<I, R>("A = Pinv D Qinv", &y, &ag);
        }
        // rank / factors consistent with D
        let rank = (0..r).take_while(|&i| !dg[i][i].is_zero()).count();
        I::oblige("rank() consistent", VF::of_bool(res.rank() == rank));
        I::oblige("factors() consistent", VF::of_bool(res.factors().len() == (0..r).filter(|&i| !dg[i][i].is_zero()).count()));
    }
}

impl Harness for Snf {
    fn id(&self) -> String {
        format!("snf/{:?}/{}x{}/B{}/flags{}{}", self.ring, self.m, self.n, self.b,
            self.flags.iter().map(|&f| if f { '1' } else { '0' }).collect::<String>(),
            if self.lll_path { "/lll" } else if self.diag { "/diagonal-input" } else { "" })
    }
    fn functions(&self) -> Vec<&'static str> {
        vec!["yui_matrix::dense::snf::snf", "SnfCalc::process_with_lll -> preprocess_lll -> lll_hnf_in_place (configs marked /lll, hook H1)", "SnfCalc::{process,eliminate_all,eliminate_step,eliminate_at,eliminate_row,eliminate_col,diag_normalize,diag_normalize_step,gcdx}",
             "yui::EucRing::{gcdx,divides} (generic)", "Mat::{left_elementary,right_elementary,swap_rows,swap_cols,mul_row,mul_col}"]
    }
    fn inputs(&self) -> Vec<InputSpec> {
        let k = match self.ring { RingSel::Z | RingSel::Q => 1, _ => 2 };
        let mut v = Vec::new();
        for i in 0..self.m {
            for j in 0..self.n {
                if self.diag && i != j {
                    continue;
                }
                for c in 0..k {
                    v.push(InputSpec::boxed(&format!("a{}{}{}", i, j, if k == 1 { "".to_string() } else { ["r", "i"][c].to_string() }), self.b));
                }
            }
        }
        v
    }
    fn body<I: VInt>(&self, xs: &[I])
    where
        for<'x> &'x I: VIntOps<I>,
    {
        if self.lll_path {
            return match self.ring {
                RingSel::Z => self.check_lll::<I, I>(xs),
                RingSel::Gauss => self.check_lll::<I, GaussInt<I>>(xs),
                RingSel::Eisen => self.check_lll::<I, EisenInt<I>>(xs),
                _ => unreachable!(),
            };
        }
        match self.ring {
            RingSel::Z => self.check::<I, I>(xs),
            RingSel::Gauss => self.check::<I, GaussInt<I>>(xs),
            RingSel::Eisen => self.check::<I, EisenInt<I>>(xs),
            RingSel::Q => self.check::<I, yui::Ratio<I>>(xs),
            RingSel::ZH => unreachable!(),
        }
    }
}

pub fn configs(tier: crate::registry::Tier, _seed: u64) -> Vec<crate::registry::Entry> {
    use crate::registry::{entry, Tier};
    let mut v = Vec::new();
    let all = [true; 4];
    // Z: exhaustive small shapes
    for (m, n, b, cls, secs) in [(1, 1, 6, 200, 20.0), (1, 2, 6, 500, 40.0), (2, 1, 6, 500, 40.0), (2, 2, 2, 400, 90.0), (1, 3, 2, 400, 60.0), (3, 1, 2, 400, 60.0), (2, 3, 1, 300, 60.0), (3, 2, 1, 300, 60.0)] {
        v.push(entry(Snf { ring: RingSel::Z, m, n, b, flags: all, lll_path: false, diag: false }, cls, secs));
    }
    v.push(entry(Snf { ring: RingSel::Z, m: 0, n: 2, b: 2, flags: all, lll_path: false, diag: false }, 10, 10.0));
    v.push(entry(Snf { ring: RingSel::Z, m: 2, n: 0, b: 2, flags: all, lll_path: false, diag: false }, 10, 10.0));
    // flag subsets on 2x2
    for f in [[false; 4], [true, false, false, false], [false, true, false, true], [true, false, true, false]] {
        v.push(entry(Snf { ring: RingSel::Z, m: 2, n: 2, b: 1, flags: f, lll_path: false, diag: false }, 200, 40.0));
    }
    for (ring, m, n, b, cls, secs) in [(RingSel::Gauss, 1, 1, 2, 200, 30.0), (RingSel::Gauss, 1, 2, 1, 300, 60.0), (RingSel::Eisen, 1, 1, 2, 200, 30.0), (RingSel::Eisen, 2, 1, 1, 300, 60.0)] {
        v.push(entry(Snf { ring, m, n, b, flags: all, lll_path: false, diag: false }, cls, secs));
    }
    // the LLL-preprocessed path (hook H1)
    for (ring, m, n, b, cls, secs) in [(RingSel::Z, 2, 2, 2, 600, 120.0), (RingSel::Z, 2, 3, 1, 600, 90.0), (RingSel::Z, 3, 2, 1, 600, 90.0), (RingSel::Z, 1, 2, 4, 200, 30.0), (RingSel::Gauss, 2, 1, 1, 300, 60.0), (RingSel::Eisen, 1, 2, 1, 300, 60.0)] {
        v.push(entry(Snf { ring, m, n, b, flags: all, lll_path: true, diag: false }, cls, secs));
    }
    v.push(entry(Snf { ring: RingSel::Z, m: 2, n: 2, b: 1, flags: [false, true, true, false], lll_path: true, diag: false }, 300, 40.0));
    // 4x4 and 5x5: queries beyond the solver; solver-sampled inputs only (nothing reported as proven)
    v.push(crate::registry::sampled(Snf { ring: RingSel::Z, m: 4, n: 4, b: 9, flags: all, lll_path: false, diag: false }, if tier == Tier::Thorough { 400 } else { 60 }, 120.0));
    v.push(crate::registry::sampled(Snf { ring: RingSel::Z, m: 5, n: 4, b: 9, flags: all, lll_path: true, diag: false }, if tier == Tier::Thorough { 200 } else { 30 }, 120.0));
    v.push(crate::registry::sampled(Snf { ring: RingSel::Gauss, m: 3, n: 3, b: 3, flags: all, lll_path: false, diag: false }, if tier == Tier::Thorough { 200 } else { 30 }, 120.0));
    // diagonal inputs: the divisibility-chain normalisation on its own (3 or 4 symbolic entries, wider box)
    v.push(entry(Snf { ring: RingSel::Z, m: 3, n: 3, b: 6, flags: all, lll_path: false, diag: true }, 3000, 150.0));
    v.push(entry(Snf { ring: RingSel::Z, m: 2, n: 3, b: 8, flags: all, lll_path: false, diag: true }, 1000, 60.0));
    v.push(entry(Snf { ring: RingSel::Gauss, m: 2, n: 2, b: 2, flags: all, lll_path: false, diag: true }, 1000, 90.0));
    v.push(entry(Snf { ring: RingSel::Z, m: 3, n: 3, b: 2, flags: all, lll_path: false, diag: false }, 600, 120.0));
    v.push(entry(Snf { ring: RingSel::Gauss, m: 1, n: 3, b: 2, flags: all, lll_path: false, diag: false }, 600, 120.0));
    v.push(entry(Snf { ring: RingSel::Q, m: 2, n: 2, b: 2, flags: all, lll_path: false, diag: false }, 600, 90.0));
    if tier == Tier::Thorough {
        v.push(entry(Snf { ring: RingSel::Z, m: 4, n: 4, b: 6, flags: all, lll_path: false, diag: true }, 20000, 1800.0));
        v.push(entry(Snf { ring: RingSel::Eisen, m: 3, n: 3, b: 2, flags: all, lll_path: false, diag: true }, 20000, 900.0));
        for (m, n, b, cls, secs) in [(2, 2, 4, 5000, 900.0), (2, 3, 2, 5000, 900.0), (3, 2, 2, 5000, 900.0), (3, 3, 1, 5000, 900.0), (3, 3, 2, 3000, 900.0)] {
            v.push(entry(Snf { ring: RingSel::Z, m, n, b, flags: all, lll_path: false, diag: false }, cls, secs));
        }
        for (ring, m, n, b, cls, secs) in [(RingSel::Gauss, 2, 2, 1, 3000, 900.0), (RingSel::Eisen, 2, 2, 1, 3000, 900.0), (RingSel::Gauss, 1, 2, 2, 3000, 600.0)] {
            v.push(entry(Snf { ring, m, n, b, flags: all, lll_path: false, diag: false }, cls, secs));
        }
    }
    v
}
