pub mod c07;
pub mod c09;
pub mod c10;
