pub mod c07;
pub mod c08;
pub mod c09;
pub mod c10;
pub mod c11;
pub mod c12;
pub mod c13;
