//! C07 — homology of an arbitrary chain complex over a Euclidean domain
use crate::ctx::Rel;
use crate::explore::{Harness, InputSpec};
use crate::props::c09::RingSel;
use crate::util::*;
use crate::vint::{VInt, VIntOps, VF};
use num_traits::{One, Zero};
use yui::{EisenInt, EucRing, EucRingOps, GaussInt, Ring, RingOps};
use yui_homology::utils::HomologyCalc;
use yui_matrix::sparse::SpMat;
use yui_matrix::MatTrait;

/// C1 (dim m) --d1--> C2 (dim n) --d2--> C3 (dim k)
pub struct Homology {
    pub ring: RingSel,
    pub m: usize,
    pub n: usize,
    pub k: usize,
    pub b: i64,
    /// d1 is a diagonal matrix with symbolic diagonal (planted torsion with several, possibly incomparable, factors)
    pub diag: bool,
}

impl Homology {
    fn arity(&self) -> usize {
        if self.ring == RingSel::Z || self.ring == RingSel::Q { 1 } else { 2 }
    }
    fn split<'a, I>(&self, xs: &'a [I]) -> (&'a [I], &'a [I]) {
        xs.split_at(if self.diag { self.n.min(self.m) * self.arity() } else { self.n * self.m * self.arity() })
    }
    fn pre_r<I, R>(&self, xs: &[I])
    where
        I: VInt,
        for<'x> &'x I: VIntOps<I>,
        R: VRing<I>,
        for<'x> &'x R: RingOps<R>,
    {
        // d2 * d1 = 0.  NB: QuadInt::mul has zero-test shortcuts, so the product is written on components for Z only;
        // for the quadratic rings the precondition is imposed on the integer components through grid_mul_nobranch.
        let (x1, x2) = self.split(xs);
        let d1: Grid<R> = build_grid::<I, R>(self.n, self.m, x1);
        let d2: Grid<R> = build_grid::<I, R>(self.k, self.n, x2);
        let p = grid_mul(&d2, &d1, self.n, self.m);
        for row in &p {
            for e in row {
                I::assume(is_zero_f::<I, R>(e));
            }
        }
    }
    fn check<I, R>(&self, xs: &[I])
    where
        I: VInt,
        for<'x> &'x I: VIntOps<I>,
        R: VRing<I> + EucRing,
        for<'x> &'x R: EucRingOps<R>,
    {
        let (m, n, k) = (self.m, self.n, self.k);
        let (x1, x2) = self.split(xs);
        let g1: Grid<R> = if self.diag {
            let ar = R::ARITY;
            (0..n).map(|i| (0..m).map(|j| if i == j { R::build(&x1[i * ar..(i + 1) * ar]) } else { R::zero() }).collect()).collect()
        } else {
            build_grid::<I, R>(n, m, x1)
        };
        let g2: Grid<R> = build_grid::<I, R>(k, n, x2);
        let (d1, d2) = (grid_to_sp(&g1, n, m), grid_to_sp(&g2, k, n));
        let (rank, tors, trans) = HomologyCalc::calculate(d1, d2, true);
        // ---- reference: rank and torsion from minors
        let (r1, r2) = (rank_by_minors(&g1, n, m), rank_by_minors(&g2, k, n));
        I::oblige("free rank = n - rk d1 - rk d2", VF::of_bool(rank + r1 + r2 == n));
        let inv = invariant_factors_by_minors(&g1, n, m);
        let ref_tors: Vec<&R> = inv.iter().filter(|e| !e.is_unit()).collect();
        I::oblige("number of torsion summands", VF::of_bool(ref_tors.len() == tors.len()));
        if ref_tors.len() == tors.len() {
            for (i, (a, b)) in tors.iter().zip(&ref_tors).enumerate() {
                I::oblige(&format!("torsion factor {} ~ gcd-of-minors factor", i), a.associate(b));
            }
        }
        // ---- transfer maps
        let t = trans.expect("transformation requested");
        let (f, b) = (sp_to_grid(&t.forward_mat()), sp_to_grid(&t.backward_mat()));
        let tot = rank + tors.len();
        I::oblige("shape of forward/backward", VF::of_bool(f.len() == tot && b.len() == n && (n == 0 || b[0].len() == tot) && (tot == 0 || f[0].len() == n)));
        if !(f.len() == tot && b.len() == n && (n == 0 || b[0].len() == tot) && (tot == 0 || f[0].len() == n)) {
            return;
        }
        // generators are cycles
        let db = grid_mul(&g2, &b, n, tot);
        for (i, row) in db.iter().enumerate() {
            for (j, e) in row.iter().enumerate() {
                oblige_zero::<I, R>(&format!("d2 * generator {} is zero (row {})", j, i), e);
            }
        }
        // boundaries map to zero: free coordinates exactly, torsion coordinates modulo their order
        let fd = grid_mul(&f, &g1, n, m);
        for (i, row) in fd.iter().enumerate() {
            for (j, e) in row.iter().enumerate() {
                if i < rank {
                    oblige_zero::<I, R>(&format!("free coordinate {} of boundary {}", i, j), e);
                } else {
                    oblige_zero::<I, R>(&format!("torsion coordinate {} of boundary {} mod order", i, j), &(e % &tors[i - rank]));
                }
            }
        }
        // coordinates of the generators are the standard basis
        let fb = grid_mul(&f, &b, n, tot);
        for i in 0..tot {
            for j in 0..tot {
                let want = if i == j { R::one() } else { R::zero() };
                let diff = &fb[i][j] - &want;
                if i < rank {
                    oblige_zero::<I, R>(&format!("forward(backward(e_{})) coordinate {}", j, i), &diff);
                } else {
                    oblige_zero::<I, R>(&format!("forward(backward(e_{})) coordinate {} mod order", j, i), &(&diff % &tors[i - rank]));
                }
            }
        }
        // torsion generators really have the stated order: order * generator is a boundary is implied by SNF; we check
        // the weaker, directly observable fact that order * generator is killed by forward on the free part
        let _ = Rel::Eq;
    }
}

impl Harness for Homology {
    fn id(&self) -> String {
        format!("homology/{:?}/{}-{}-{}/B{}{}", self.ring, self.m, self.n, self.k, self.b, if self.diag { "/diagonal-d1" } else { "" })
    }
    fn functions(&self) -> Vec<&'static str> {
        vec!["yui_homology::utils::HomologyCalc::{calculate,process_snf,result,trans,trivial_result}", "yui_matrix::dense::snf::snf_in_place (generic elimination path)",
             "yui_matrix::sparse::Trans::{new,forward_mat,backward_mat}", "SpMat::{from_dense_data,into_dense,mul,submat_rows,submat_cols,stack,concat}"]
    }
    fn inputs(&self) -> Vec<InputSpec> {
        let a = self.arity();
        let mut v = Vec::new();
        for (name, r, c) in [("d1_", self.n, self.m), ("d2_", self.k, self.n)] {
            for i in 0..r {
                for j in 0..c {
                    if self.diag && name == "d1_" && i != j {
                        continue;
                    }
                    for t in 0..a {
                        v.push(InputSpec::boxed(&format!("{}{}{}{}", name, i, j, if a == 1 { "" } else { ["r", "w"][t] }), self.b));
                    }
                }
            }
        }
        v
    }
    fn pre<I: VInt>(&self, xs: &[I])
    where
        for<'x> &'x I: VIntOps<I>,
    {
        if self.diag {
            assert!(self.k == 0, "diagonal configurations have no outgoing differential");
            return;
        }
        match self.ring {
            RingSel::Z | RingSel::Q => self.pre_r::<I, I>(xs),
            // quadratic rings: see `pre_quad`
            _ => self.pre_quad::<I>(xs),
        }
    }
    fn body<I: VInt>(&self, xs: &[I])
    where
        for<'x> &'x I: VIntOps<I>,
    {
        match self.ring {
            RingSel::Z => self.check::<I, I>(xs),
            RingSel::Gauss => self.check::<I, GaussInt<I>>(xs),
            RingSel::Eisen => self.check::<I, EisenInt<I>>(xs),
            RingSel::Q => self.check::<I, yui::Ratio<I>>(xs),
            RingSel::ZH => unreachable!(),
        }
    }
}

impl Homology {
    /// d2*d1 = 0 on components, branch-free ((a+bw)(c+dw) with w^2 = -1 resp. w^2 = w - 1)
    fn pre_quad<I>(&self, xs: &[I])
    where
        I: VInt,
        for<'x> &'x I: VIntOps<I>,
    {
        let (x1, x2) = self.split(xs);
        let (m, n, k) = (self.m, self.n, self.k);
        let e1 = |i: usize, j: usize| (x1[(i * m + j) * 2].clone(), x1[(i * m + j) * 2 + 1].clone());
        let e2 = |i: usize, j: usize| (x2[(i * n + j) * 2].clone(), x2[(i * n + j) * 2 + 1].clone());
        for i in 0..k {
            for j in 0..m {
                let (mut re, mut im) = (I::zero(), I::zero());
                for l in 0..n {
                    let ((a, b), (c, d)) = (e2(i, l), e1(l, j));
                    match self.ring {
                        RingSel::Gauss => {
                            re = &re + &(&(&a * &c) - &(&b * &d));
                            im = &im + &(&(&a * &d) + &(&b * &c));
                        }
                        _ => {
                            re = &re + &(&(&a * &c) - &(&b * &d));
                            im = &im + &(&(&(&a * &d) + &(&b * &c)) + &(&b * &d));
                        }
                    }
                }
                I::assume(VF::And(vec![VF::zero(re), VF::zero(im)]));
            }
        }
    }
}

pub fn configs(tier: crate::registry::Tier, _seed: u64) -> Vec<crate::registry::Entry> {
    use crate::registry::{entry, Tier};
    let mut v = Vec::new();
    for (ring, m, n, k, b, cls, secs) in [
        (RingSel::Z, 1, 1, 1, 4, 200, 30.0), (RingSel::Z, 1, 2, 1, 3, 600, 120.0), (RingSel::Z, 2, 2, 1, 2, 600, 150.0), (RingSel::Z, 1, 2, 2, 2, 600, 150.0),
        (RingSel::Z, 2, 1, 1, 3, 200, 40.0), (RingSel::Z, 0, 2, 1, 3, 200, 40.0), (RingSel::Z, 2, 2, 0, 2, 400, 90.0), (RingSel::Z, 0, 0, 0, 1, 2, 5.0), (RingSel::Z, 1, 0, 1, 1, 2, 5.0),
        (RingSel::Z, 2, 3, 1, 1, 600, 150.0), (RingSel::Gauss, 1, 1, 1, 1, 300, 60.0), (RingSel::Gauss, 1, 2, 1, 1, 400, 150.0), (RingSel::Eisen, 1, 1, 1, 1, 300, 60.0),
        (RingSel::Q, 1, 2, 1, 2, 600, 120.0), (RingSel::Q, 2, 2, 1, 1, 600, 120.0), (RingSel::Q, 1, 1, 1, 3, 200, 30.0),
    ] {
        v.push(entry(Homology { ring, m, n, k, b, diag: false }, cls, secs));
    }
    // planted torsion: diagonal d1 with symbolic diagonal, d2 = 0 (k = 0)
    v.push(entry(Homology { ring: RingSel::Z, m: 3, n: 3, k: 0, b: 6, diag: true }, 3000, 150.0));
    v.push(entry(Homology { ring: RingSel::Z, m: 2, n: 3, k: 0, b: 8, diag: true }, 1000, 60.0));
    v.push(entry(Homology { ring: RingSel::Gauss, m: 2, n: 2, k: 0, b: 2, diag: true }, 1000, 90.0));
    if tier == Tier::Thorough {
        v.push(entry(Homology { ring: RingSel::Z, m: 4, n: 4, k: 0, b: 6, diag: true }, 20000, 1800.0));
        for (ring, m, n, k, b, cls, secs) in [
            (RingSel::Z, 2, 2, 2, 2, 5000, 900.0), (RingSel::Z, 2, 3, 2, 1, 5000, 900.0), (RingSel::Z, 3, 3, 1, 1, 5000, 900.0), (RingSel::Z, 1, 2, 1, 6, 5000, 900.0),
            (RingSel::Z, 2, 2, 1, 4, 5000, 900.0), (RingSel::Gauss, 2, 2, 1, 1, 5000, 900.0), (RingSel::Eisen, 1, 2, 1, 1, 5000, 900.0),
        ] {
            v.push(entry(Homology { ring, m, n, k, b, diag: false }, cls, secs));
        }
    }
    v
}
