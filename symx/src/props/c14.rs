//! Engine-S parts of C14 (scalar rings), C15 (Euclidean operations) and C16 (polynomials, MultiDeg)
use crate::ctx::Rel;
use crate::explore::{Harness, InputSpec};
use crate::util::*;
use crate::vint::{VInt, VIntOps, VF};
use num_traits::{One, Pow, Signed, Zero};
use std::collections::BTreeMap;
use yui::poly::{LPoly, Mono, MonoOrd, MultiDeg, Poly, Poly2};
use yui::{DivRound, EisenInt, EucRing, EucRingOps, GaussInt, QuadInt, Ratio, Ring, RingOps};

// ================================================================================================ C14

#[derive(Clone, Copy, Debug, PartialEq)]
pub enum ScalarKind {
    RatioRing,
    RatioOrder,
    Quad(i32),
}

pub struct Scalars {
    pub kind: ScalarKind,
    pub b: Option<i64>,
}

fn canonical_q<I: VInt>(label: &str, q: &Ratio<I>)
where
    for<'x> &'x I: VIntOps<I>,
{
    I::oblige(&format!("{}: denominator positive", label), VF::Atom(q.denom().clone(), Rel::Gt));
    // lowest terms: the (generic, symbolically executed) gcd of numerator and denominator is 1; 0 is 0/1
    if q.numer().is_zero() {
        I::oblige(&format!("{}: zero is 0/1", label), VF::zero(q.denom() - &I::one()));
    } else {
        let g = I::gcd(q.numer(), q.denom());
        I::oblige(&format!("{}: lowest terms", label), VF::zero(&g - &I::one()));
    }
}

fn same_q<I: VInt>(label: &str, q: &Ratio<I>, n: &I, d: &I)
where
    for<'x> &'x I: VIntOps<I>,
{
    // q == n/d  <=>  q.numer * d == n * q.denom
    I::oblige(label, VF::zero(&(q.numer() * d) - &(n * q.denom())));
}

impl Harness for Scalars {
    fn id(&self) -> String {
        format!("scalars/{:?}/{}", self.kind, self.b.map(|b| format!("B{}", b)).unwrap_or("unbounded".into()))
    }
    fn functions(&self) -> Vec<&'static str> {
        match self.kind {
            ScalarKind::RatioRing => vec!["Ratio::{new,reduce,add_assign,sub_assign,mul_assign,div_assign,neg,inv,is_zero,is_one,eq} over the symbolic integer", "EucRing::{gcd,lcm} (generic)"],
            ScalarKind::RatioOrder => vec!["Ratio::{cmp,partial_cmp,eq}"],
            ScalarKind::Quad(_) => vec!["QuadInt::{add,sub,mul,neg,conj,norm,is_zero,is_one,eq}"],
        }
    }
    fn inputs(&self) -> Vec<InputSpec> {
        let mk = |n: &str| match self.b {
            Some(b) => InputSpec::boxed(n, b),
            None => InputSpec::free(n),
        };
        match self.kind {
            ScalarKind::RatioRing | ScalarKind::RatioOrder => vec![mk("an"), mk("ad"), mk("bn"), mk("bd"), mk("cn"), mk("cd")],
            ScalarKind::Quad(_) => vec![mk("a0"), mk("a1"), mk("b0"), mk("b1"), mk("c0"), mk("c1")],
        }
    }
    fn pre<I: VInt>(&self, xs: &[I])
    where
        for<'x> &'x I: VIntOps<I>,
    {
        if matches!(self.kind, ScalarKind::RatioRing | ScalarKind::RatioOrder) {
            for k in [1, 3, 5] {
                I::assume(VF::nonzero(xs[k].clone()));
            }
        }
    }
    fn body<I: VInt>(&self, xs: &[I])
    where
        for<'x> &'x I: VIntOps<I>,
    {
        match self.kind {
            ScalarKind::RatioRing => {
                let (an, ad, bn, bd) = (&xs[0], &xs[1], &xs[2], &xs[3]);
                let a = Ratio::new(an.clone(), ad.clone());
                let b = Ratio::from((bn.clone(), bd.clone()));
                canonical_q("new(a)", &a);
                same_q("new(a) = an/ad", &a, an, ad);
                let forms = |op: u8| -> Vec<Ratio<I>> {
                    let mut v = Vec::new();
                    macro_rules! all {
                        ($o:tt, $oa:tt) => {{
                            v.push(a.clone() $o b.clone());
                            v.push(&a $o &b);
                            v.push(a.clone() $o &b);
                            v.push(&a $o b.clone());
                            let mut c = a.clone(); c $oa b.clone(); v.push(c);
                            let mut c = a.clone(); c $oa &b; v.push(c);
                        }};
                    }
                    match op {
                        0 => all!(+, +=),
                        1 => all!(-, -=),
                        _ => all!(*, *=),
                    }
                    v
                };
                for (op, name) in [(0u8, "a+b"), (1, "a-b"), (2, "a*b")] {
                    let (en, ed) = match op {
                        0 => (&(an * bd) + &(bn * ad), ad * bd),
                        1 => (&(an * bd) - &(bn * ad), ad * bd),
                        _ => (an * bn, ad * bd),
                    };
                    for (k, c) in forms(op).iter().enumerate() {
                        canonical_q(&format!("{} (form {})", name, k), c);
                        same_q(&format!("{} value (form {})", name, k), c, &en, &ed);
                    }
                }
                let m = -&a;
                canonical_q("-a", &m);
                same_q("-a value", &m, &-an, ad);
                canonical_q("-a (by value)", &(-a.clone()));
                I::oblige("is_zero", VF::of_bool(a.is_zero() == an.is_zero()));
                I::oblige("is_unit <=> non-zero", VF::of_bool(a.is_unit() == !an.is_zero()));
                match a.inv() {
                    Some(i) => {
                        canonical_q("inv(a)", &i);
                        same_q("inv(a) value", &i, ad, an);
                        I::oblige("a * inv(a) = 1", VF::of_bool((&a * &i).is_one()));
                    }
                    None => I::oblige("inv is None only for 0", VF::zero(an.clone())),
                }
                if !bn.is_zero() {
                    let q = &a / &b;
                    canonical_q("a/b", &q);
                    same_q("a/b value", &q, &(an * bd), &(ad * bn));
                    I::oblige("a % b = 0 in a field", VF::of_bool((&a % &b).is_zero()));
                }
                // equality is value equality
                let eq_val = (&(an * bd) - &(bn * ad)).is_zero();
                I::oblige("a == b  <=>  same rational", VF::of_bool((a == b) == eq_val));
                I::oblige("is_one", VF::of_bool(a.is_one() == (an - ad).is_zero()));
            }
            ScalarKind::RatioOrder => {
                use std::cmp::Ordering::*;
                let q = |n: &I, d: &I| Ratio::new(n.clone(), d.clone());
                let (a, b, c) = (q(&xs[0], &xs[1]), q(&xs[2], &xs[3]), q(&xs[4], &xs[5]));
                // reference order of Q: sign of an*bd - bn*ad, corrected by the signs of the denominators
                let refcmp = |n1: &I, d1: &I, n2: &I, d2: &I| {
                    let s = &(n1 * d2) - &(n2 * d1);
                    let flip = d1.is_negative() != d2.is_negative();
                    let o = if s.is_zero() { Equal } else if s.is_positive() { Greater } else { Less };
                    if flip { o.reverse() } else { o }
                };
                let (ab, bc, ac) = (a.cmp(&b), b.cmp(&c), a.cmp(&c));
                I::oblige("cmp(a,b) is the order of Q", VF::of_bool(ab == refcmp(&xs[0], &xs[1], &xs[2], &xs[3])));
                I::oblige("cmp(b,c) is the order of Q", VF::of_bool(bc == refcmp(&xs[2], &xs[3], &xs[4], &xs[5])));
                I::oblige("cmp consistent with ==", VF::of_bool((ab == Equal) == (a == b)));
                I::oblige("antisymmetric", VF::of_bool(b.cmp(&a) == ab.reverse()));
                I::oblige("transitive", VF::of_bool(!(ab != Greater && bc != Greater) || ac != Greater));
                I::oblige("partial_cmp agrees", VF::of_bool(a.partial_cmp(&b) == Some(ab)));
            }
            ScalarKind::Quad(d) => {
                fn run<I: VInt, const D: i32>(xs: &[I])
                where
                    for<'x> &'x I: VIntOps<I>,
                {
                    type Q<I, const D: i32> = QuadInt<I, D>;
                    let z = |i: usize| Q::<I, D>::new(xs[2 * i].clone(), xs[2 * i + 1].clone());
                    let (a, b, c) = (z(0), z(1), z(2));
                    let eq = |label: &str, x: &Q<I, D>, y: &Q<I, D>| {
                        oblige_zero::<I, Q<I, D>>(label, &(x - y));
                    };
                    eq("a+b = b+a", &(&a + &b), &(&b + &a));
                    eq("(a+b)+c = a+(b+c)", &(&(&a + &b) + &c), &(&a + &(&b + &c)));
                    eq("ab = ba", &(&a * &b), &(&b * &a));
                    eq("(ab)c = a(bc)", &(&(&a * &b) * &c), &(&a * &(&b * &c)));
                    eq("a(b+c) = ab+ac", &(&a * &(&b + &c)), &(&(&a * &b) + &(&a * &c)));
                    eq("a-b = a+(-b)", &(&a - &b), &(&a + &(-&b)));
                    eq("a*1 = a", &(&a * &Q::<I, D>::one()), &a);
                    eq("a+0 = a", &(&a + &Q::<I, D>::zero()), &a);
                    eq("conj multiplicative", &(&a * &b).conj(), &(&a.conj() * &b.conj()));
                    eq("conj involution", &a.conj().conj(), &a);
                    I::oblige("N(ab) = N(a)N(b)", VF::zero(&(&a * &b).norm() - &(&a.norm() * &b.norm())));
                    eq("a * conj(a) = N(a)", &(&a * &a.conj()), &Q::<I, D>::from(a.norm()));
                    // assigning / by-value forms agree with the by-reference forms
                    let mut t = a.clone();
                    t += &b;
                    eq("+= form", &t, &(&a + &b));
                    let mut t = a.clone();
                    t *= b.clone();
                    eq("*= form", &t, &(&a * &b));
                    let mut t = a.clone();
                    t -= b.clone();
                    eq("-= form", &t, &(a.clone() - b.clone()));
                    I::oblige("== is componentwise", VF::of_bool((a == b) == ((xs[0].clone() - xs[2].clone()).is_zero() && (xs[1].clone() - xs[3].clone()).is_zero())));
                    I::oblige("is_zero", VF::of_bool(a.is_zero() == (xs[0].is_zero() && xs[1].is_zero())));
                }
                match d {
                    -1 => run::<I, -1>(xs),
                    -3 => run::<I, -3>(xs),
                    2 => run::<I, 2>(xs),
                    5 => run::<I, 5>(xs),
                    _ => run::<I, -2>(xs),
                }
            }
        }
    }
}

// ================================================================================================ C15

#[derive(Clone, Copy, Debug, PartialEq)]
pub enum EucKind {
    /// Poly<'x', Q>: a = q b + r with r = 0 or deg r < deg b; gcd monic-normalised and symmetric (degrees given by (da, db))
    PolyQ(usize, usize),
    IntDivRound,
    IntGcd,
    QuadDivRem(i32),
    QuadGcd(i32),
    QuadUnits(i32),
}

pub struct Euclid {
    pub kind: EucKind,
    pub b: i64,
}

fn quad_gcd_contract<I: VInt, const D: i32>(xs: &[I])
where
    for<'x> &'x I: VIntOps<I>,
    QuadInt<I, D>: EucRing,
    for<'x> &'x QuadInt<I, D>: EucRingOps<QuadInt<I, D>>,
{
    type Q<I, const D: i32> = QuadInt<I, D>;
    let a = Q::<I, D>::new(xs[0].clone(), xs[1].clone());
    let b = Q::<I, D>::new(xs[2].clone(), xs[3].clone());
    let d = Q::<I, D>::gcd(&a, &b);
    let e = Q::<I, D>::gcd(&b, &a);
    oblige_zero::<I, Q<I, D>>("gcd independent of the argument order", &(&d - &e));
    oblige_zero::<I, Q<I, D>>("gcd normalised", &(&d - &d.normalized()));
    if a.is_zero() && b.is_zero() {
        oblige_zero::<I, Q<I, D>>("gcd(0,0) = 0", &d);
    } else {
        I::oblige("gcd non-zero", VF::Or(d.zero_comps().into_iter().map(VF::nonzero).collect()));
        if !d.is_zero() {
            oblige_zero::<I, Q<I, D>>("gcd | a", &(&a % &d));
            oblige_zero::<I, Q<I, D>>("gcd | b", &(&b % &d));
            let l = Q::<I, D>::lcm(&a, &b);
            oblige_zero::<I, Q<I, D>>("lcm normalised", &(&l - &l.normalized()));
            I::oblige("lcm * gcd ~ a * b", (&l * &d).associate(&(&a * &b)));
        }
    }
    let (g, s, t) = Q::<I, D>::gcdx(&a, &b);
    oblige_zero::<I, Q<I, D>>("gcdx returns the gcd", &(&g - &d));
    oblige_zero::<I, Q<I, D>>("Bezout: s a + t b = g", &(&(&(&s * &a) + &(&t * &b)) - &g));
}

fn quad_divrem<I: VInt, const D: i32>(xs: &[I])
where
    for<'x> &'x I: VIntOps<I>,
    QuadInt<I, D>: EucRing,
    for<'x> &'x QuadInt<I, D>: EucRingOps<QuadInt<I, D>>,
{
    type Q<I, const D: i32> = QuadInt<I, D>;
    let a = Q::<I, D>::new(xs[0].clone(), xs[1].clone());
    let b = Q::<I, D>::new(xs[2].clone(), xs[3].clone());
    let (q, r) = (&a / &b, &a % &b);
    oblige_zero::<I, Q<I, D>>("a = (a/b) b + a%b", &(&(&(&q * &b) + &r) - &a));
    I::oblige("remainder zero or of smaller norm", VF::Or(vec![is_zero_f::<I, Q<I, D>>(&r), VF::Atom(&b.norm() - &r.norm(), Rel::Gt)]));
    let (q2, r2) = (a.clone() / b.clone(), a.clone() % &b);
    oblige_zero::<I, Q<I, D>>("by-value division agrees", &(&q - &q2));
    oblige_zero::<I, Q<I, D>>("by-value remainder agrees", &(&r - &r2));
    I::oblige("divides <=> remainder zero", VF::of_bool(b.divides(&a) == r.is_zero()));
}

fn quad_units<I: VInt, const D: i32>(xs: &[I])
where
    for<'x> &'x I: VIntOps<I>,
{
    type Q<I, const D: i32> = QuadInt<I, D>;
    let z = Q::<I, D>::new(xs[0].clone(), xs[1].clone());
    let u = z.normalizing_unit();
    I::oblige("normalising unit is a unit", u.unit_formula());
    let n = &z * &u;
    // fundamental domain: D=-1: re > 0, im >= 0 (or 0);  D=-3: a > 0, b >= 0 in the (1, omega) basis (or 0)
    I::oblige("z * u lies in the fundamental domain", VF::Or(vec![
        is_zero_f::<I, Q<I, D>>(&n),
        VF::And(vec![VF::Atom(n.left().clone(), Rel::Gt), VF::Atom(n.right().clone(), Rel::Ge)]),
    ]));
    oblige_zero::<I, Q<I, D>>("normalisation idempotent", &(&n.normalized() - &n));
    // constant on associates
    let units: Vec<Q<I, D>> = match D {
        -1 => vec![-Q::<I, D>::one(), Q::<I, D>::omega(), -Q::<I, D>::omega()],
        _ => {
            let w = Q::<I, D>::omega();
            let w2 = &w * &w;
            vec![-Q::<I, D>::one(), w.clone(), -w, w2.clone(), -w2]
        }
    };
    for (k, w) in units.iter().enumerate() {
        oblige_zero::<I, Q<I, D>>(&format!("normalised associate {} agrees", k), &(&(&z * w).normalized() - &n));
    }
    // is_unit <=> inv.is_some and z * inv = 1
    match z.inv() {
        Some(i) => {
            I::oblige("inv returned => is_unit", VF::of_bool(z.is_unit()));
            I::oblige("z * inv = 1", VF::of_bool((&z * &i).is_one()));
        }
        None => I::oblige("no inverse => not a unit", VF::of_bool(!z.is_unit())),
    }
    I::oblige("is_unit <=> norm is +-1", VF::of_bool(z.is_unit() == (z.norm().is_one() || (-z.norm()).is_one())));
}

impl Harness for Euclid {
    fn id(&self) -> String {
        format!("euclid/{:?}/B{}", self.kind, self.b)
    }
    fn functions(&self) -> Vec<&'static str> {
        match self.kind {
            EucKind::PolyQ(..) => vec!["Poly<'x', Ratio<_>>::{div_rem,div,rem}", "EucRing::{gcd,gcdx} (generic) over Q[x]", "PolyBase::{normalizing_unit,lead_coeff,lead_deg}"],
            EucKind::IntDivRound => vec!["<T: Integer as DivRound>::div_round (generic, exact)"],
            EucKind::IntGcd => vec!["EucRing::{gcd,gcdx,lcm,divides} (generic defaults of euc_ring.rs) over the symbolic integer", "Ring::{normalized,into_normalized}"],
            EucKind::QuadDivRem(_) => vec!["GaussInt/EisenInt::{div_round,div,rem}", "QuadInt::{mul,conj,norm}", "DivRound for Integer"],
            EucKind::QuadGcd(_) => vec!["EucRing::{gcd,gcdx,lcm} (generic) over GaussInt/EisenInt", "QuadInt::normalizing_unit"],
            EucKind::QuadUnits(_) => vec!["QuadInt::{normalizing_unit,is_unit,inv,norm}", "Ring::normalized"],
        }
    }
    fn inputs(&self) -> Vec<InputSpec> {
        let n = match self.kind {
            EucKind::IntDivRound | EucKind::IntGcd | EucKind::QuadUnits(_) => 2,
            EucKind::PolyQ(da, db) => da + db + 2,
            _ => 4,
        };
        (0..n).map(|i| InputSpec::boxed(&format!("x{}", i), self.b)).collect()
    }
    fn pre<I: VInt>(&self, xs: &[I])
    where
        for<'x> &'x I: VIntOps<I>,
    {
        match self.kind {
            EucKind::IntDivRound => I::assume(VF::nonzero(xs[1].clone())),
            EucKind::QuadDivRem(_) => I::assume(VF::Or(vec![VF::nonzero(xs[2].clone()), VF::nonzero(xs[3].clone())])),
            // the divisor has exact degree db: its leading coefficient is non-zero
            EucKind::PolyQ(da, db) => I::assume(VF::nonzero(xs[da + 1 + db].clone())),
            _ => {}
        }
    }
    fn body<I: VInt>(&self, xs: &[I])
    where
        for<'x> &'x I: VIntOps<I>,
    {
        match self.kind {
            EucKind::PolyQ(da, db) => {
                type P<I> = Poly<'x', Ratio<I>>;
                let mk = |cs: &[I]| -> P<I> { cs.iter().enumerate().map(|(e, c)| (P::<I>::mono(e), Ratio::from(c.clone()))).collect() };
                let (a, b) = (mk(&xs[..da + 1]), mk(&xs[da + 1..]));
                let (q, r) = a.div_rem(&b);
                let back = &(&q * &b) + &r;
                for e in 0..=(da + db + 2) {
                    let d = back.coeff(&P::<I>::mono(e)) - a.coeff(&P::<I>::mono(e));
                    I::oblige(&format!("a = q b + r (coefficient of x^{})", e), VF::zero(d.numer().clone()));
                }
                I::oblige("remainder zero or of smaller degree", VF::of_bool(r.is_zero() || r.lead_deg() < b.lead_deg()));
                let (q2, r2) = (&a / &b, &a % &b);
                I::oblige("operators agree with div_rem", VF::of_bool(q2 == q && r2 == r));
                // gcd: symmetric, monic (normalised), divides both
                let g = P::<I>::gcd(&a, &b);
                let g2 = P::<I>::gcd(&b, &a);
                I::oblige("gcd independent of the argument order", VF::of_bool(g == g2));
                if !g.is_zero() {
                    I::oblige("gcd is monic", VF::of_bool(g.lead_coeff().is_one()));
                    I::oblige("gcd | a", VF::of_bool((&a % &g).is_zero()));
                    I::oblige("gcd | b", VF::of_bool((&b % &g).is_zero()));
                }
            }
            EucKind::IntDivRound => {
                let (a, b) = (&xs[0], &xs[1]);
                let q = a.div_round(b);
                let r = a - &(&q * b);
                let two = I::lit(2);
                let (ar, ab) = (r.abs(), b.abs());
                // 2|a - q b| <= |b|, and on a tie the quotient is the one of larger magnitude (round half away from zero)
                I::oblige("2|a - qb| <= |b|", VF::Atom(&ab - &(&two * &ar), Rel::Ge));
                if (&ab - &(&two * &ar)).is_zero() && !r.is_zero() {
                    let other = if r.is_positive() == b.is_positive() { &q + &I::one() } else { &q - &I::one() };
                    I::oblige("tie: away from zero", VF::Atom(&q.abs() - &other.abs(), Rel::Gt));
                }
            }
            EucKind::IntGcd => {
                let (a, b) = (&xs[0], &xs[1]);
                let d = I::gcd(a, b);
                I::oblige("gcd >= 0 (normalised)", VF::Atom(d.clone(), Rel::Ge));
                I::oblige("gcd symmetric", VF::zero(&d - &I::gcd(b, a)));
                if a.is_zero() && b.is_zero() {
                    I::oblige("gcd(0,0) = 0", VF::zero(d.clone()));
                } else {
                    I::oblige("gcd > 0", VF::Atom(d.clone(), Rel::Gt));
                    if !d.is_zero() {
                        I::oblige("gcd | a", VF::zero(a % &d));
                        I::oblige("gcd | b", VF::zero(b % &d));
                        let l = I::lcm(a, b);
                        I::oblige("lcm >= 0", VF::Atom(l.clone(), Rel::Ge));
                        I::oblige("lcm * gcd = |a b|", VF::zero(&(&l * &d) - &(a * b).abs()));
                    }
                }
                let (g, s, t) = I::gcdx(a, b);
                I::oblige("gcdx gcd", VF::zero(&g - &d));
                I::oblige("Bezout", VF::zero(&(&(&s * a) + &(&t * b)) - &g));
                I::oblige("divides", VF::of_bool(a.divides(b) == (!a.is_zero() && (b % a).is_zero())));
                let u = a.normalizing_unit();
                I::oblige("normalising unit", VF::Atom(a * &u, Rel::Ge));
                I::oblige("is_unit <=> inv", VF::of_bool(a.is_unit() == a.inv().is_some()));
            }
            EucKind::QuadDivRem(-1) => quad_divrem::<I, -1>(xs),
            EucKind::QuadDivRem(_) => quad_divrem::<I, -3>(xs),
            EucKind::QuadGcd(-1) => quad_gcd_contract::<I, -1>(xs),
            EucKind::QuadGcd(_) => quad_gcd_contract::<I, -3>(xs),
            EucKind::QuadUnits(-1) => quad_units::<I, -1>(xs),
            EucKind::QuadUnits(_) => quad_units::<I, -3>(xs),
        }
    }
}

// ================================================================================================ C16

#[derive(Clone, Copy, Debug, PartialEq)]
pub enum PolyKind {
    Uni,
    Laurent,
    Bi,
    MultiDeg,
}

pub struct Polys {
    pub kind: PolyKind,
    pub template: usize,
}

/// supports (exponent lists) of the two operands
fn templates_uni() -> Vec<(Vec<isize>, Vec<isize>)> {
    vec![
        (vec![0, 1, 2], vec![0, 1]),
        (vec![1, 3], vec![0, 2, 3]),
        (vec![0], vec![0, 1, 2]),
        (vec![2, 2, 0], vec![1, 1]), // repeated exponents in the construction
        (vec![], vec![0, 1]),
    ]
}
fn templates_laurent() -> Vec<(Vec<isize>, Vec<isize>)> {
    vec![(vec![-1, 0, 1], vec![-1, 1]), (vec![-2, 1], vec![2, -1, 0]), (vec![-1], vec![1]), (vec![0, -2], vec![2, 0])]
}
fn templates_bi() -> Vec<(Vec<(isize, isize)>, Vec<(isize, isize)>)> {
    vec![
        (vec![(0, 0), (1, 0), (0, 1)], vec![(0, 0), (1, 1)]),
        (vec![(1, 0), (0, 1)], vec![(1, 0), (0, 1)]),
        (vec![(2, 0), (1, 1), (0, 2)], vec![(1, 0)]),
        (vec![(0, 0)], vec![(0, 0), (0, 1), (1, 0)]),
    ]
}

fn ref_of<K: Ord + Clone, I: VInt>(sup: &[K], cs: &[I]) -> BTreeMap<K, I>
where
    for<'x> &'x I: VIntOps<I>,
{
    let mut m: BTreeMap<K, I> = BTreeMap::new();
    for (k, c) in sup.iter().zip(cs) {
        let e = m.entry(k.clone()).or_insert_with(I::zero);
        *e = &*e + c;
    }
    m
}
fn ref_add<K: Ord + Clone, I: VInt>(a: &BTreeMap<K, I>, b: &BTreeMap<K, I>, sub: bool) -> BTreeMap<K, I>
where
    for<'x> &'x I: VIntOps<I>,
{
    let mut m = a.clone();
    for (k, c) in b {
        let e = m.entry(k.clone()).or_insert_with(I::zero);
        *e = if sub { &*e - c } else { &*e + c };
    }
    m
}
fn ref_mul<K: Ord + Clone, I: VInt>(a: &BTreeMap<K, I>, b: &BTreeMap<K, I>, add: &dyn Fn(&K, &K) -> K) -> BTreeMap<K, I>
where
    for<'x> &'x I: VIntOps<I>,
{
    let mut m: BTreeMap<K, I> = BTreeMap::new();
    for (k1, c1) in a {
        for (k2, c2) in b {
            let e = m.entry(add(k1, k2)).or_insert_with(I::zero);
            *e = &*e + &(c1 * c2);
        }
    }
    m
}

macro_rules! check_poly {
    ($I:ty, $label:expr, $p:expr, $want:expr, $mono:expr, $keyof:expr) => {{
        let p = &$p;
        let want = &$want;
        // no stored zero coefficient; every stored term agrees with the reference; nothing missing
        let mut seen = std::collections::BTreeSet::new();
        for (x, a) in p.iter() {
            <$I>::oblige(&format!("{}: stored coefficient non-zero", $label), VF::nonzero(a.clone()));
            let k = $keyof(x);
            let w = want.get(&k).cloned().unwrap_or_else(<$I>::zero);
            <$I>::oblige(&format!("{}: coefficient at {:?}", $label, k), VF::zero(a - &w));
            seen.insert(k);
        }
        for (k, w) in want.iter() {
            if !seen.contains(k) {
                <$I>::oblige(&format!("{}: missing term {:?} must be zero", $label, k), VF::zero(w.clone()));
            }
            <$I>::oblige(&format!("{}: coeff() at {:?}", $label, k), VF::zero(p.coeff(&$mono(k)) - w));
        }
        // derived observers agree with the reference (the reference's zero tests are oracle decisions)
        let nz: Vec<_> = want.iter().filter(|(_, c)| !c.is_zero()).collect();
        <$I>::oblige(&format!("{}: nterms", $label), VF::of_bool(p.nterms() == nz.len()));
        <$I>::oblige(&format!("{}: is_zero", $label), VF::of_bool(p.is_zero() == nz.is_empty()));
    }};
}

impl Harness for Polys {
    fn id(&self) -> String {
        format!("polys/{:?}/template{}", self.kind, self.template)
    }
    fn functions(&self) -> Vec<&'static str> {
        match self.kind {
            PolyKind::MultiDeg => vec!["MultiDeg::{from,from_iter,add_assign,sub_assign,neg,total,index,cmp_lex,cmp_grlex,is_zero,ninds,all_leq} with symbolic exponents"],
            _ => vec!["PolyBase::{from_iter,add,sub,mul,neg,mul_assign(scalar),pow,eval,coeff,nterms,is_zero,is_one,is_const,lead_term,lead_deg,eq}", "Lc::{add_assign,sub_assign,mul_assign,clean,from_iter}"],
        }
    }
    fn inputs(&self) -> Vec<InputSpec> {
        let n = match self.kind {
            PolyKind::Uni => { let t = &templates_uni()[self.template]; t.0.len() + t.1.len() + 2 }
            PolyKind::Laurent => { let t = &templates_laurent()[self.template]; t.0.len() + t.1.len() + 1 }
            PolyKind::Bi => { let t = &templates_bi()[self.template]; t.0.len() + t.1.len() + 3 }
            PolyKind::MultiDeg => 6,
        };
        // coefficients are unbounded (loop-free in the scalars); MultiDeg exponents live in a small box (total order queries)
        (0..n).map(|i| if self.kind == PolyKind::MultiDeg { InputSpec::boxed(&format!("e{}", i), 3) } else { InputSpec::boxed(&format!("c{}", i), 1000) }).collect()
    }
    fn body<I: VInt>(&self, xs: &[I])
    where
        for<'x> &'x I: VIntOps<I>,
    {
        match self.kind {
            PolyKind::Uni => {
                type P<I> = Poly<'x', I>;
                let (sa, sb) = templates_uni()[self.template].clone();
                let (ca, rest) = xs.split_at(sa.len());
                let (cb, rest) = rest.split_at(sb.len());
                let (k, pt) = (&rest[0], &rest[1]);
                let mk = |s: &[isize], c: &[I]| -> P<I> { s.iter().zip(c).map(|(&e, c)| (P::<I>::mono(e as usize), c.clone())).collect() };
                let (a, b) = (mk(&sa, ca), mk(&sb, cb));
                let (ra, rb) = (ref_of(&sa, ca), ref_of(&sb, cb));
                let mono = |k: &isize| P::<I>::mono(*k as usize);
                let keyof = |x: &yui::poly::Var<'x', usize>| x.deg() as isize;
                check_poly!(I, "a", a, ra, mono, keyof);
                check_poly!(I, "a+b", &a + &b, ref_add(&ra, &rb, false), mono, keyof);
                check_poly!(I, "a+b (by value)", a.clone() + b.clone(), ref_add(&ra, &rb, false), mono, keyof);
                check_poly!(I, "a-b", &a - &b, ref_add(&ra, &rb, true), mono, keyof);
                check_poly!(I, "a-a", &a - &a, ref_add(&ra, &ra, true), mono, keyof);
                let prod = ref_mul(&ra, &rb, &|x, y| x + y);
                check_poly!(I, "a*b", &a * &b, prod, mono, keyof);
                check_poly!(I, "b*a", &b * &a, prod, mono, keyof);
                let mut t = a.clone();
                t *= &b;
                check_poly!(I, "a*=b", t, prod, mono, keyof);
                check_poly!(I, "-a", -&a, ra.iter().map(|(k, c)| (*k, -c)).collect::<BTreeMap<_, _>>(), mono, keyof);
                check_poly!(I, "a*k", &a * k, ra.iter().map(|(e, c)| (*e, c * k)).collect::<BTreeMap<_, _>>(), mono, keyof);
                check_poly!(I, "a^2", (&a).pow(2usize), ref_mul(&ra, &ra, &|x, y| x + y), mono, keyof);
                check_poly!(I, "a*1", &a * &P::<I>::one(), ra, mono, keyof);
                check_poly!(I, "a*0", &a * &P::<I>::zero(), BTreeMap::<isize, I>::new(), mono, keyof);
                // evaluation is a ring homomorphism
                let ev = |m: &BTreeMap<isize, I>| m.iter().fold(I::zero(), |s, (e, c)| &s + &(c * &pt.pow(&(*e as usize))));
                I::oblige("eval(a) matches", VF::zero(&a.eval(pt) - &ev(&ra)));
                I::oblige("eval additive", VF::zero(&(&a + &b).eval(pt) - &(&a.eval(pt) + &b.eval(pt))));
                I::oblige("eval multiplicative", VF::zero(&(&a * &b).eval(pt) - &(&a.eval(pt) * &b.eval(pt))));
                // leading term / degree / is_const / is_one / ==
                let nz: Vec<(&isize, &I)> = ra.iter().filter(|(_, c)| !c.is_zero()).collect();
                if let Some((e, c)) = nz.last() {
                    I::oblige("lead_deg", VF::of_bool(a.lead_deg() as isize == **e));
                    I::oblige("lead_coeff", VF::zero(a.lead_coeff() - *c));
                }
                I::oblige("is_const", VF::of_bool(a.is_const() == nz.iter().all(|(e, _)| **e == 0)));
                I::oblige("is_one", VF::of_bool(a.is_one() == (nz.len() == 1 && *nz[0].0 == 0 && nz[0].1.is_one())));
                let same = ref_add(&ra, &rb, true).values().all(|c| c.is_zero());
                I::oblige("== is polynomial equality", VF::of_bool((a == b) == same));
            }
            PolyKind::Laurent => {
                type P<I> = LPoly<'x', I>;
                let (sa, sb) = templates_laurent()[self.template].clone();
                let (ca, rest) = xs.split_at(sa.len());
                let (cb, rest) = rest.split_at(sb.len());
                let k = &rest[0];
                let mk = |s: &[isize], c: &[I]| -> P<I> { s.iter().zip(c).map(|(&e, c)| (P::<I>::mono(e), c.clone())).collect() };
                let (a, b) = (mk(&sa, ca), mk(&sb, cb));
                let (ra, rb) = (ref_of(&sa, ca), ref_of(&sb, cb));
                let mono = |k: &isize| P::<I>::mono(*k);
                let keyof = |x: &yui::poly::Var<'x', isize>| x.deg();
                check_poly!(I, "a", a, ra, mono, keyof);
                check_poly!(I, "a+b", &a + &b, ref_add(&ra, &rb, false), mono, keyof);
                check_poly!(I, "a-b", a.clone() - &b, ref_add(&ra, &rb, true), mono, keyof);
                let prod = ref_mul(&ra, &rb, &|x, y| x + y);
                check_poly!(I, "a*b", &a * &b, prod, mono, keyof);
                check_poly!(I, "a*k", &a * k, ra.iter().map(|(e, c)| (*e, c * k)).collect::<BTreeMap<_, _>>(), mono, keyof);
                check_poly!(I, "(a*b)-(b*a)", &(&a * &b) - &(&b * &a), BTreeMap::<isize, I>::new(), mono, keyof);
                let nz: Vec<(&isize, &I)> = ra.iter().filter(|(_, c)| !c.is_zero()).collect();
                // leading term = largest exponent (also when every exponent is negative)
                if let Some((e, c)) = nz.last() {
                    I::oblige("lead_deg (Laurent)", VF::of_bool(a.lead_deg() == **e));
                    I::oblige("lead_coeff (Laurent)", VF::zero(a.lead_coeff() - *c));
                } else {
                    I::oblige("lead_coeff of 0 is 0", VF::zero(a.lead_coeff().clone()));
                }
                let rp: BTreeMap<isize, I> = prod.iter().filter(|(_, c)| !c.is_zero()).map(|(k, c)| (*k, c.clone())).collect();
                if let (Some((ea, _)), Some((eb, _)), Some((ep, _))) = (nz.last(), rb.iter().filter(|(_, c)| !c.is_zero()).last(), rp.iter().next_back()) {
                    // Z is a domain: the degree is additive
                    I::oblige("lead_deg additive under multiplication", VF::of_bool((&a * &b).lead_deg() == *ep && *ep == **ea + *eb));
                }
                I::oblige("is_unit <=> single term with unit coefficient", VF::of_bool(a.is_unit() == (nz.len() == 1 && nz[0].1.is_unit())));
                if let Some(i) = a.inv() {
                    I::oblige("a * inv(a) = 1", VF::of_bool((&a * &i).is_one()));
                }
            }
            PolyKind::Bi => {
                type P<I> = Poly2<'x', 'y', I>;
                let (sa, sb) = templates_bi()[self.template].clone();
                let (ca, rest) = xs.split_at(sa.len());
                let (cb, rest) = rest.split_at(sb.len());
                let (k, px, py) = (&rest[0], &rest[1], &rest[2]);
                let mk = |s: &[(isize, isize)], c: &[I]| -> P<I> { s.iter().zip(c).map(|(&(i, j), c)| (P::<I>::mono(i as usize, j as usize), c.clone())).collect() };
                let (a, b) = (mk(&sa, ca), mk(&sb, cb));
                let (ra, rb) = (ref_of(&sa, ca), ref_of(&sb, cb));
                let mono = |k: &(isize, isize)| P::<I>::mono(k.0 as usize, k.1 as usize);
                let keyof = |x: &yui::poly::Var2<'x', 'y', usize>| { let d = x.deg(); (d.0 as isize, d.1 as isize) };
                check_poly!(I, "a", a, ra, mono, keyof);
                check_poly!(I, "a+b", &a + &b, ref_add(&ra, &rb, false), mono, keyof);
                check_poly!(I, "a-b", &a - &b, ref_add(&ra, &rb, true), mono, keyof);
                let prod = ref_mul(&ra, &rb, &|x, y| (x.0 + y.0, x.1 + y.1));
                check_poly!(I, "a*b", &a * &b, prod, mono, keyof);
                check_poly!(I, "b*a", b.clone() * a.clone(), prod, mono, keyof);
                check_poly!(I, "a*k", &a * k, ra.iter().map(|(e, c)| (*e, c * k)).collect::<BTreeMap<_, _>>(), mono, keyof);
                {
                    let nz: Vec<(&(isize, isize), &I)> = ra.iter().filter(|(_, c)| !c.is_zero()).collect();
                    if let Some((e, c)) = nz.iter().max_by_key(|(e, _)| (e.0 + e.1, e.0, e.1)) {
                        let d = a.lead_deg();
                        I::oblige("lead_deg (grlex, two variables)", VF::of_bool((d.0 as isize, d.1 as isize) == **e));
                        I::oblige("lead_coeff (two variables)", VF::zero(a.lead_coeff() - *c));
                    }
                }
                let ev = |m: &BTreeMap<(isize, isize), I>| m.iter().fold(I::zero(), |s, (e, c)| &s + &(&(c * &px.pow(&(e.0 as usize))) * &py.pow(&(e.1 as usize))));
                I::oblige("eval(a) matches", VF::zero(&a.eval(px, py) - &ev(&ra)));
                I::oblige("eval multiplicative", VF::zero(&(&a * &b).eval(px, py) - &(&a.eval(px, py) * &b.eval(px, py))));
            }
            PolyKind::MultiDeg => {
                use std::cmp::Ordering::*;
                let md = |i: usize| MultiDeg::<I>::from([xs[2 * i].clone(), xs[2 * i + 1].clone()]);
                let (a, b, c) = (md(0), md(1), md(2));
                let nzc = |x: &I, y: &I| (!x.is_zero()) as usize + (!y.is_zero()) as usize;
                I::oblige("no zero exponent stored (construction)", VF::of_bool(a.ninds() == nzc(&xs[0], &xs[1])));
                let s = a.clone() + &b;
                I::oblige("no zero exponent stored (sum)", VF::of_bool(s.ninds() == nzc(&(&xs[0] + &xs[2]), &(&xs[1] + &xs[3]))));
                I::oblige("sum exponents", VF::And(vec![VF::zero(&s[0] - &(&xs[0] + &xs[2])), VF::zero(&s[1] - &(&xs[1] + &xs[3]))]));
                let d = a.clone() - b.clone();
                I::oblige("no zero exponent stored (difference)", VF::of_bool(d.ninds() == nzc(&(&xs[0] - &xs[2]), &(&xs[1] - &xs[3]))));
                I::oblige("difference exponents", VF::And(vec![VF::zero(&d[0] - &(&xs[0] - &xs[2])), VF::zero(&d[1] - &(&xs[1] - &xs[3]))]));
                let n = -&a;
                I::oblige("negation", VF::And(vec![VF::zero(&n[0] + &xs[0]), VF::zero(&n[1] + &xs[1])]));
                I::oblige("total", VF::zero(&a.total() - &(&xs[0] + &xs[1])));
                I::oblige("== is exponent-wise", VF::of_bool((a == b) == ((&xs[0] - &xs[2]).is_zero() && (&xs[1] - &xs[3]).is_zero())));
                // orders: reference = tuple comparison on the exponents
                let lex = |i: usize, j: usize| xs[2 * i].cmp(&xs[2 * j]).then_with(|| xs[2 * i + 1].cmp(&xs[2 * j + 1]));
                let grlex = |i: usize, j: usize| (&xs[2 * i] + &xs[2 * i + 1]).cmp(&(&xs[2 * j] + &xs[2 * j + 1])).then_with(|| lex(i, j));
                I::oblige("cmp_lex(a,b)", VF::of_bool(a.cmp_lex(&b) == lex(0, 1)));
                I::oblige("cmp_lex(b,c)", VF::of_bool(b.cmp_lex(&c) == lex(1, 2)));
                I::oblige("cmp_grlex(a,b)", VF::of_bool(a.cmp_grlex(&b) == grlex(0, 1)));
                I::oblige("cmp_grlex(a,c)", VF::of_bool(a.cmp_grlex(&c) == grlex(0, 2)));
                I::oblige("lex consistent with ==", VF::of_bool((a.cmp_lex(&b) == Equal) == (a == b)));
                // compatible with addition (= multiplication of monomials)
                I::oblige("lex compatible with +", VF::of_bool((a.clone() + &c).cmp_lex(&(b.clone() + &c)) == a.cmp_lex(&b)));
                I::oblige("grlex compatible with +", VF::of_bool((a.clone() + &c).cmp_grlex(&(b.clone() + &c)) == a.cmp_grlex(&b)));
            }
        }
    }
}

pub fn configs_c14(tier: crate::registry::Tier, _seed: u64) -> Vec<crate::registry::Entry> {
    use crate::registry::{entry, Tier};
    let th = tier == Tier::Thorough;
    let mut v = Vec::new();
    v.push(entry(Scalars { kind: ScalarKind::RatioRing, b: Some(if th { 6 } else { 3 }) }, if th { 20000 } else { 3000 }, if th { 3000.0 } else { 200.0 }));
    v.push(entry(Scalars { kind: ScalarKind::RatioOrder, b: Some(if th { 8 } else { 4 }) }, if th { 20000 } else { 1500 }, if th { 3000.0 } else { 200.0 }));
    for d in [-1, -3, 2, 5, -2] {
        v.push(entry(Scalars { kind: ScalarKind::Quad(d), b: Some(1000) }, 3000, 120.0));
    }
    v
}

pub fn configs_c15(tier: crate::registry::Tier, _seed: u64) -> Vec<crate::registry::Entry> {
    use crate::registry::{entry, Tier};
    let th = tier == Tier::Thorough;
    let mut v = Vec::new();
    v.push(entry(Euclid { kind: EucKind::IntDivRound, b: 1_000_000 }, 500, 120.0));
    v.push(entry(Euclid { kind: EucKind::PolyQ(2, 1), b: 2 }, 1500, 120.0));
    v.push(entry(Euclid { kind: EucKind::PolyQ(1, 1), b: 3 }, 1500, 90.0));
    v.push(entry(Euclid { kind: EucKind::PolyQ(2, 2), b: 1 }, 1500, 120.0));
    v.push(entry(Euclid { kind: EucKind::IntGcd, b: if th { 30 } else { 12 } }, if th { 20000 } else { 2000 }, if th { 3000.0 } else { 240.0 }));
    for d in [-1, -3] {
        v.push(entry(Euclid { kind: EucKind::QuadDivRem(d), b: if th { 6 } else { 3 } }, if th { 20000 } else { 1500 }, if th { 3000.0 } else { 240.0 }));
        v.push(entry(Euclid { kind: EucKind::QuadGcd(d), b: if th { 4 } else { 2 } }, if th { 20000 } else { 1500 }, if th { 3000.0 } else { 120.0 }));
        v.push(entry(Euclid { kind: EucKind::QuadUnits(d), b: 1000 }, 2000, 120.0));
    }
    v
}

pub fn configs_c16(tier: crate::registry::Tier, seed: u64) -> Vec<crate::registry::Entry> {
    use crate::registry::{entry, Tier};
    let th = tier == Tier::Thorough;
    let mut v = Vec::new();
    let pick = |n: usize| -> Vec<usize> { if th { (0..n).collect() } else { vec![seed as usize % n, (seed as usize + 1) % n, (seed as usize + 3) % n] } };
    for t in pick(templates_uni().len()) {
        v.push(entry(Polys { kind: PolyKind::Uni, template: t }, if th { 20000 } else { 1500 }, if th { 1800.0 } else { 150.0 }));
    }
    for t in pick(templates_laurent().len()) {
        v.push(entry(Polys { kind: PolyKind::Laurent, template: t }, if th { 20000 } else { 1500 }, if th { 1800.0 } else { 150.0 }));
    }
    for t in pick(templates_bi().len()) {
        v.push(entry(Polys { kind: PolyKind::Bi, template: t }, if th { 20000 } else { 1500 }, if th { 1800.0 } else { 150.0 }));
    }
    v.push(entry(Polys { kind: PolyKind::MultiDeg, template: 0 }, if th { 50000 } else { 3000 }, if th { 1800.0 } else { 200.0 }));
    v
}
