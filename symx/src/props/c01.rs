//! C01 — Khovanov homology equals the cube-of-resolutions definition
//! C05 (a) — the returned complex is a chain complex (d∘d = 0) whose differential raises h-degree by one
use crate::ctx::Rel;
use crate::explore::{Harness, InputSpec};
use crate::khref::{self, Pd};
use crate::util::*;
use crate::vint::{VInt, VIntOps, VF};
use num_traits::{One, Zero};
use yui::{EucRing, EucRingOps, Ring, RingOps};
use yui::poly::Mono;
use yui_homology::{ChainComplexTrait, GridTrait, SummandTrait};
use yui_kh::kh::{KhComplex, KhHomology};
use yui_link::Link;
use yui_matrix::MatTrait;

pub fn link_of(pd: &Pd, mirror: bool) -> Link {
    let l = Link::from_pd_code(pd.clone());
    if mirror { l.mirror() } else { l }
}

#[derive(Clone, Copy, Debug, PartialEq)]
pub enum Mode {
    /// homology vs cube of resolutions
    Homology,
    /// d∘d = 0 and degree of d, on the complex as returned
    ChainComplex,
    /// C05 (c): the complex built over Z[H,T] and evaluated at (h,t) has the homology of the complex built at (h,t);
    /// C05 (b): its differential is q-homogeneous with deg H = -2, deg T = -4
    Specialise,
    /// kernel obligation: closed dotted surfaces of genus g evaluate to eps((2X-h)^g X^x (X-h)^y) in A = R[X]/(X^2-hX-t)
    EvalKernel,
}

pub struct Kh {
    pub ring: crate::props::c09::RingSel,
    pub name: &'static str,
    pub pd: Pd,
    pub mirror: bool,
    pub reduced: bool,
    pub b: Option<i64>, // None: (h,t) unbounded (only meaningful for Mode::ChainComplex)
    pub mode: Mode,
}

impl Kh {
    fn ht<I: VInt>(&self, xs: &[I]) -> (I, I)
    where
        for<'x> &'x I: VIntOps<I>,
    {
        if self.reduced { (xs[0].clone(), I::zero()) } else { (xs[0].clone(), xs[1].clone()) }
    }
}

pub fn compare_with_reference<I, R>(pd: &Pd, mirror: bool, reduced: bool, h: &R, t: &R, lib: &[(isize, usize, Vec<R>)], label: &str)
where
    I: VInt,
    for<'x> &'x I: VIntOps<I>,
    R: VRing<I> + EucRing,
    for<'x> &'x R: EucRingOps<R>,
{
    let free = khref::signed_crossings_choice(pd, mirror, 0).map(|x| x.2).unwrap_or(0);
    if free == 0 {
        for (l, f) in reference_formulas::<I, R>(pd, mirror, reduced, h, t, lib, label, 0) {
            I::oblige(&l, f);
        }
        return;
    }
    // components that only pass over: the code does not orient them; the library's answer must be the cube-of-resolutions
    // homology for ONE of the orientations consistent with the under-strand directions
    let mut alts = Vec::new();
    for choice in 0..(1usize << free) {
        alts.push(VF::And(reference_formulas::<I, R>(pd, mirror, reduced, h, t, lib, label, choice).into_iter().map(|x| x.1).collect()));
    }
    I::oblige(&format!("{}: agrees with the cube of resolutions for one of the {} admissible orientations", label, 1usize << free), VF::Or(alts));
}

fn reference_formulas<I, R>(pd: &Pd, mirror: bool, reduced: bool, h: &R, t: &R, lib: &[(isize, usize, Vec<R>)], label: &str, choice: usize) -> Vec<(String, VF<I>)>
where
    I: VInt,
    for<'x> &'x I: VIntOps<I>,
    R: VRing<I> + EucRing,
    for<'x> &'x R: EucRingOps<R>,
{
    let mut out: Vec<(String, VF<I>)> = Vec::new();
    let Some(rc) = khref::cube_complex_choice::<R>(pd, mirror, h, t, reduced, choice) else {
        out.push((format!("{}: reference complex could be built", label), VF::False));
        return out;
    };
    let size = |x: &R| -> num_bigint::BigInt { x.zero_comps().iter().map(|c| num_traits::Signed::abs(&c.shadow())).sum() };
    let sig = khref::homology_signature(&rc, &size);
    // every degree reported by either side
    let mut degs: std::collections::BTreeSet<isize> = sig.iter().map(|s| s.0).collect();
    degs.extend(lib.iter().map(|s| s.0));
    for i in degs {
        let r = sig.iter().find(|s| s.0 == i);
        let l = lib.iter().find(|s| s.0 == i);
        let (rr, rt): (usize, Vec<R>) = r.map(|s| (s.1, s.2.clone())).unwrap_or((0, vec![]));
        let (lr, lt): (usize, Vec<R>) = l.map(|s| (s.1, s.2.clone())).unwrap_or((0, vec![]));
        out.push((format!("{}: free rank in degree {} (library {}, cube {})", label, i, lr, rr), VF::of_bool(lr == rr)));
        out.push((format!("{}: number of torsion summands in degree {} (library {}, cube {})", label, i, lt.len(), rt.len()), VF::of_bool(lt.len() == rt.len())));
        if lt.len() == rt.len() {
            for (k, (a, b)) in lt.iter().zip(&rt).enumerate() {
                out.push((format!("{}: torsion factor {} in degree {} associate", label, k, i), a.associate(b)));
            }
        }
    }
    out
}

impl Harness for Kh {
    fn id(&self) -> String {
        format!("kh/{:?}{}/{}{}{}/ht{}", self.mode, if self.ring == crate::props::c09::RingSel::Q { "/Q" } else { "" }, self.name, if self.mirror { "-mirror" } else { "" }, if self.reduced { "/reduced" } else { "" },
            self.b.map(|b| format!("B{}", b)).unwrap_or("-unbounded".into()))
    }
    fn functions(&self) -> Vec<&'static str> {
        vec!["yui_kh::kh::KhComplex::new (v2: TngComplexBuilder::{build_kh_complex,process_all,append,deloop,eliminate}, TngComplex, Cob::{part_eval,eval}, Tng)",
             "KhComplex::homology -> ChainComplexBase::reduced (ChainReducer) -> HomologyCalc (snf, generic path)", "KhAlgStr::{prod,coprod}", "yui_link::Link::{from_pd_code,mirror,crossing_signs,...}"]
    }
    fn inputs(&self) -> Vec<InputSpec> {
        let mk = |n: &str| match self.b {
            Some(b) => InputSpec::boxed(n, b),
            None => InputSpec::free(n),
        };
        if self.reduced { vec![mk("h")] } else { vec![mk("h"), mk("t")] }
    }
    fn body<I: VInt>(&self, xs: &[I])
    where
        for<'x> &'x I: VIntOps<I>,
    {
        let (h, t) = self.ht(xs);
        if self.mode == Mode::EvalKernel {
            use yui_kh::kh::internal::v2::cob::{CobComp, Dot};
            // arithmetic in A on pairs (a, b) = a + bX, independent of the library
            let mul = |p: &(I, I), q: &(I, I)| -> (I, I) {
                let (a, b) = p;
                let (c, d) = q;
                // (a+bX)(c+dX) = ac + (ad+bc)X + bd(hX+t)
                let bd = b * d;
                (&(a * c) + &(&bd * &t), &(&(a * d) + &(b * c)) + &(&bd * &h))
            };
            let x = (I::zero(), I::one());
            let y = (-&h, I::one());
            let handle = (-&h, I::lit(2));
            for g in 0..=3usize {
                for nx in 0..=3usize {
                    for ny in 0..=3usize {
                        let mut c = CobComp::closed(g);
                        for _ in 0..nx {
                            c.add_dot(Dot::X);
                        }
                        for _ in 0..ny {
                            c.add_dot(Dot::Y);
                        }
                        let got: I = c.eval(&h, &t);
                        let mut acc = (I::one(), I::zero());
                        for _ in 0..g {
                            acc = mul(&acc, &handle);
                        }
                        for _ in 0..nx {
                            acc = mul(&acc, &x);
                        }
                        for _ in 0..ny {
                            acc = mul(&acc, &y);
                        }
                        // counit: eps(a + bX) = b
                        I::oblige(&format!("eval(genus {}, {} X-dots, {} Y-dots)", g, nx, ny), VF::zero(&got - &acc.1));
                    }
                }
            }
            return;
        }
        let link = link_of(&self.pd, self.mirror);
        let c = KhComplex::<I>::new(&link, &h, &t, self.reduced);
        match self.mode {
            Mode::ChainComplex => {
                let sup: Vec<isize> = c.support().collect();
                for &i in &sup {
                    let d0 = c.d_matrix(i);
                    let d1 = c.d_matrix(i + 1);
                    I::oblige(&format!("shape of d_{}", i), VF::of_bool(d0.shape() == (c.rank(i + 1), c.rank(i))));
                    if d1.ncols() != d0.nrows() {
                        I::oblige(&format!("d_{} and d_{} composable", i + 1, i), VF::False);
                        continue;
                    }
                    let (g0, g1) = (sp_to_grid(&d0), sp_to_grid(&d1));
                    let p = grid_mul(&g1, &g0, d0.nrows(), d0.ncols());
                    for (a, row) in p.iter().enumerate() {
                        for (b, e) in row.iter().enumerate() {
                            I::oblige(&format!("(d_{} d_{})[{},{}] = 0", i + 1, i, a, b), VF::zero(e.clone()));
                        }
                    }
                    // d raises homological degree by one: generators of C^i have h_deg i
                    for x in c[i].raw_gens().iter() {
                        I::oblige("generator sits in its homological degree", VF::of_bool(x.h_deg() == i));
                    }
                }
            }
            Mode::EvalKernel => unreachable!(),
            Mode::Specialise => {
                type P<I> = yui::poly::Poly2<'H', 'T', I>;
                let (ph, pt): (P<I>, P<I>) = (P::<I>::variable(0), if self.reduced { P::<I>::zero() } else { P::<I>::variable(1) });
                let cp = KhComplex::<P<I>>::new(&link, &ph, &pt, self.reduced);
                let sup: Vec<isize> = cp.support().collect();
                let mut gens: Vec<Vec<khref::RefGen>> = Vec::new();
                let mut ds: Vec<khref::Grid<I>> = Vec::new();
                for (k, &i) in sup.iter().enumerate() {
                    let n = cp.rank(i);
                    gens.push((0..n).map(|_| khref::RefGen { state: vec![], label: vec![], h: i, q: 0 }).collect());
                    if k + 1 < sup.len() {
                        let d = cp.d_matrix(i);
                        let g = sp_to_grid::<P<I>>(&d);
                        // (b) q-homogeneity: an entry c H^a T^b from generator x to generator y needs q(y) - q(x) = 2a + 4b
                        let (src, tgt) = (cp[i].raw_gens(), cp[i + 1].raw_gens());
                        for (r, row) in g.iter().enumerate() {
                            for (c, e) in row.iter().enumerate() {
                                for (mono, coef) in e.iter() {
                                    let (a, b) = mono.deg();
                                    let (qx, qy) = (src.iter().nth(c).unwrap().q_deg(), tgt.iter().nth(r).unwrap().q_deg());
                                    I::oblige(&format!("q-homogeneous entry [{},{}] of d_{} (H^{} T^{}, q {} -> {})", r, c, i, a, b, qx, qy),
                                        VF::Or(vec![VF::zero(coef.clone()), VF::of_bool(qy - qx == 2 * a as isize + 4 * b as isize)]));
                                }
                            }
                        }
                        // (c) evaluate at the symbolic point
                        ds.push(g.iter().map(|row| row.iter().map(|e| e.eval(&h, &t)).collect()).collect());
                    }
                }
                let rc = khref::RefComplex { h_min: *sup.first().unwrap_or(&0), gens, d: ds };
                let sig = khref::homology_signature(&rc, &|x: &I| num_traits::Signed::abs(&x.shadow()));
                let kh = c.homology();
                let lib: Vec<(isize, usize, Vec<I>)> = kh.support().map(|i| (i, kh[i].rank(), kh[i].tors().to_vec())).collect();
                let mut degs: std::collections::BTreeSet<isize> = sig.iter().map(|s| s.0).collect();
                degs.extend(lib.iter().map(|s| s.0));
                for i in degs {
                    let (rr, rt) = sig.iter().find(|s| s.0 == i).map(|s| (s.1, s.2.clone())).unwrap_or((0, vec![]));
                    let (lr, lt) = lib.iter().find(|s| s.0 == i).map(|s| (s.1, s.2.clone())).unwrap_or((0, vec![]));
                    I::oblige(&format!("specialisation: free rank in degree {} (direct {}, evaluated {})", i, lr, rr), VF::of_bool(lr == rr));
                    I::oblige(&format!("specialisation: torsion count in degree {} (direct {}, evaluated {})", i, lt.len(), rt.len()), VF::of_bool(lt.len() == rt.len()));
                    if lt.len() == rt.len() {
                        for (a, b) in lt.iter().zip(&rt) {
                            I::oblige(&format!("specialisation: torsion factor in degree {} associate", i), VF::Or(vec![VF::zero(a - b), VF::zero(a + b)]));
                        }
                    }
                }
            }
            Mode::Homology => {
                if self.ring == crate::props::c09::RingSel::Q {
                    let (hq, tq) = (yui::Ratio::from(h.clone()), yui::Ratio::from(t.clone()));
                    let cq = KhComplex::<yui::Ratio<I>>::new(&link, &hq, &tq, self.reduced);
                    let kh = cq.homology();
                    let lib: Vec<(isize, usize, Vec<yui::Ratio<I>>)> = kh.support().map(|i| (i, kh[i].rank(), kh[i].tors().to_vec())).collect();
                    compare_with_reference::<I, yui::Ratio<I>>(&self.pd, self.mirror, self.reduced, &hq, &tq, &lib, "Kh over Q");
                } else {
                    let kh = c.homology();
                    let lib: Vec<(isize, usize, Vec<I>)> = kh.support().map(|i| (i, kh[i].rank(), kh[i].tors().to_vec())).collect();
                    compare_with_reference::<I, I>(&self.pd, self.mirror, self.reduced, &h, &t, &lib, "Kh");
                }
            }
        }
    }
}

pub fn configs(tier: crate::registry::Tier, _seed: u64) -> Vec<crate::registry::Entry> {
    use crate::registry::{entry, Tier};
    let mut v = Vec::new();
    v.push(entry(Kh { ring: crate::props::c09::RingSel::Z, name: "closed-surfaces", pd: vec![], mirror: false, reduced: false, b: Some(3), mode: Mode::EvalKernel }, 200, 120.0));
    for (name, pd) in khref::catalogue() {
        let n = pd.len();
        if n > 3 && tier == Tier::Quick {
            continue;
        }
        let knot = name != "hopf";
        for mirror in [false, true] {
            for reduced in [false, true] {
                if reduced && !knot {
                    continue;
                }
                let b = if n <= 2 { 2 } else { 1 };
                let b = if tier == Tier::Thorough { b + 1 } else { b };
                v.push(entry(Kh { ring: crate::props::c09::RingSel::Z, name, pd: pd.clone(), mirror, reduced, b: Some(if reduced { b + 1 } else { b }), mode: Mode::Homology }, 200, if tier == Tier::Quick { 240.0 } else { 1800.0 }));
                if !reduced && (n <= 3 || tier == Tier::Thorough) {
                    v.push(entry(Kh { ring: crate::props::c09::RingSel::Q, name, pd: pd.clone(), mirror, reduced, b: Some(b), mode: Mode::Homology }, 200, if tier == Tier::Quick { 240.0 } else { 1800.0 }));
                }
            }
        }
    }
    // diagrams with a component that only passes over
    for (name, pd) in khref::over_only_catalogue() {
        for mirror in [false, true] {
            v.push(entry(Kh { ring: crate::props::c09::RingSel::Z, name, pd: pd.clone(), mirror, reduced: false, b: Some(if pd.len() <= 2 { 2 } else { 1 }), mode: Mode::Homology }, 100, 150.0));
        }
    }
    // larger diagrams from the repository's table (5-6 crossings): Z and Q, (h,t) in [-1,1]^2 (quick) / [-2,2]^2 (thorough)
    for (name, pd) in khref::big_catalogue() {
        let quick_set = ["5_2", "L5a1", "6_2", "L6n1", "L7n2"];
        if tier == Tier::Quick && !quick_set.contains(&name) {
            continue;
        }
        for mirror in [false, true] {
            for ring in [crate::props::c09::RingSel::Z, crate::props::c09::RingSel::Q] {
                v.push(entry(Kh { ring, name, pd: pd.clone(), mirror, reduced: false, b: Some(if tier == Tier::Quick { if ring == crate::props::c09::RingSel::Q { 1 } else { 2 } } else { 3 }), mode: Mode::Homology }, 120, if tier == Tier::Quick { 150.0 } else { 1800.0 }));
            }
        }
    }
    v
}

pub fn configs_c05a(tier: crate::registry::Tier, _seed: u64) -> Vec<crate::registry::Entry> {
    use crate::registry::{entry, Tier};
    let mut v = Vec::new();
    // 8-9 crossing knots: products of two non-constant coefficients occur in the reduction only there
    for (name, pd) in khref::cycle_catalogue().into_iter().chain(khref::big_catalogue().into_iter().filter(|x| x.0 == "6_2" || x.0 == "L5a1")) {
        for mirror in [false, true] {
            v.push(entry(Kh { ring: crate::props::c09::RingSel::Z, name, pd: pd.clone(), mirror, reduced: false, b: Some(if tier == Tier::Quick { 1 } else { 2 }), mode: Mode::Specialise }, 60, 200.0));
            v.push(entry(Kh { ring: crate::props::c09::RingSel::Z, name, pd: pd.clone(), mirror, reduced: false, b: None, mode: Mode::ChainComplex }, 40, 150.0));
        }
    }
    for (name, pd) in khref::catalogue() {
        if pd.len() > 3 && tier == Tier::Quick {
            continue;
        }
        let knot = name != "hopf";
        for mirror in [false, true] {
            // (h,t) unbounded: the verdict of each class holds for all integers in the class
            v.push(entry(Kh { ring: crate::props::c09::RingSel::Z, name, pd: pd.clone(), mirror, reduced: false, b: None, mode: Mode::ChainComplex }, 60, 120.0));
            if knot {
                v.push(entry(Kh { ring: crate::props::c09::RingSel::Z, name, pd: pd.clone(), mirror, reduced: true, b: None, mode: Mode::ChainComplex }, 60, 120.0));
            }
            // (b), (c): polynomial parameters, then evaluation at a symbolic point of the box
            v.push(entry(Kh { ring: crate::props::c09::RingSel::Z, name, pd: pd.clone(), mirror, reduced: false, b: Some(2), mode: Mode::Specialise }, 100, 150.0));
            if knot {
                v.push(entry(Kh { ring: crate::props::c09::RingSel::Z, name, pd: pd.clone(), mirror, reduced: true, b: Some(3), mode: Mode::Specialise }, 100, 150.0));
            }
        }
    }
    v
}
