//! C01 — Khovanov homology equals the cube-of-resolutions definition
//! C05 (a) — the returned complex is a chain complex (d∘d = 0) whose differential raises h-degree by one
use crate::ctx::Rel;
use crate::explore::{Harness, InputSpec};
use crate::khref::{self, Pd};
use crate::util::*;
use crate::vint::{VInt, VIntOps, VF};
use num_traits::{One, Zero};
use yui::{EucRing, EucRingOps, Ring, RingOps};
use yui_homology::{ChainComplexTrait, GridTrait, SummandTrait};
use yui_kh::kh::{KhComplex, KhHomology};
use yui_link::Link;
use yui_matrix::MatTrait;

pub fn link_of(pd: &Pd, mirror: bool) -> Link {
    let l = Link::from_pd_code(pd.clone());
    if mirror { l.mirror() } else { l }
}

#[derive(Clone, Copy, Debug, PartialEq)]
pub enum Mode {
    /// homology vs cube of resolutions
    Homology,
    /// d∘d = 0 and degree of d, on the complex as returned
    ChainComplex,
    /// kernel obligation: closed dotted surfaces of genus g evaluate to eps((2X-h)^g X^x (X-h)^y) in A = R[X]/(X^2-hX-t)
    EvalKernel,
}

pub struct Kh {
    pub ring: crate::props::c09::RingSel,
    pub name: &'static str,
    pub pd: Pd,
    pub mirror: bool,
    pub reduced: bool,
    pub b: Option<i64>, // None: (h,t) unbounded (only meaningful for Mode::ChainComplex)
    pub mode: Mode,
}

impl Kh {
    fn ht<I: VInt>(&self, xs: &[I]) -> (I, I)
    where
        for<'x> &'x I: VIntOps<I>,
    {
        if self.reduced { (xs[0].clone(), I::zero()) } else { (xs[0].clone(), xs[1].clone()) }
    }
}

pub fn compare_with_reference<I, R>(pd: &Pd, mirror: bool, reduced: bool, h: &R, t: &R, lib: &[(isize, usize, Vec<R>)], label: &str)
where
    I: VInt,
    for<'x> &'x I: VIntOps<I>,
    R: VRing<I> + EucRing,
    for<'x> &'x R: EucRingOps<R>,
{
    let Some(rc) = khref::cube_complex::<R>(pd, mirror, h, t, reduced) else {
        I::oblige(&format!("{}: reference complex could be built", label), VF::False);
        return;
    };
    let size = |x: &R| -> num_bigint::BigInt { x.zero_comps().iter().map(|c| num_traits::Signed::abs(&c.shadow())).sum() };
    let sig = khref::homology_signature(&rc, &size);
    // every degree reported by either side
    let mut degs: std::collections::BTreeSet<isize> = sig.iter().map(|s| s.0).collect();
    degs.extend(lib.iter().map(|s| s.0));
    for i in degs {
        let r = sig.iter().find(|s| s.0 == i);
        let l = lib.iter().find(|s| s.0 == i);
        let (rr, rt): (usize, Vec<R>) = r.map(|s| (s.1, s.2.clone())).unwrap_or((0, vec![]));
        let (lr, lt): (usize, Vec<R>) = l.map(|s| (s.1, s.2.clone())).unwrap_or((0, vec![]));
        I::oblige(&format!("{}: free rank in degree {} (library {}, cube {})", label, i, lr, rr), VF::of_bool(lr == rr));
        I::oblige(&format!("{}: number of torsion summands in degree {} (library {}, cube {})", label, i, lt.len(), rt.len()), VF::of_bool(lt.len() == rt.len()));
        if lt.len() == rt.len() {
            for (k, (a, b)) in lt.iter().zip(&rt).enumerate() {
                I::oblige(&format!("{}: torsion factor {} in degree {} associate", label, k, i), a.associate(b));
            }
        }
    }
}

impl Harness for Kh {
    fn id(&self) -> String {
        format!("kh/{:?}{}/{}{}{}/ht{}", self.mode, if self.ring == crate::props::c09::RingSel::Q { "/Q" } else { "" }, self.name, if self.mirror { "-mirror" } else { "" }, if self.reduced { "/reduced" } else { "" },
            self.b.map(|b| format!("B{}", b)).unwrap_or("-unbounded".into()))
    }
    fn functions(&self) -> Vec<&'static str> {
        vec!["yui_kh::kh::KhComplex::new (v2: TngComplexBuilder::{build_kh_complex,process_all,append,deloop,eliminate}, TngComplex, Cob::{part_eval,eval}, Tng)",
             "KhComplex::homology -> ChainComplexBase::reduced (ChainReducer) -> HomologyCalc (snf, generic path)", "KhAlgStr::{prod,coprod}", "yui_link::Link::{from_pd_code,mirror,crossing_signs,...}"]
    }
    fn inputs(&self) -> Vec<InputSpec> {
        let mk = |n: &str| match self.b {
            Some(b) => InputSpec::boxed(n, b),
            None => InputSpec::free(n),
        };
        if self.reduced { vec![mk("h")] } else { vec![mk("h"), mk("t")] }
    }
    fn body<I: VInt>(&self, xs: &[I])
    where
        for<'x> &'x I: VIntOps<I>,
    {
        let (h, t) = self.ht(xs);
        if self.mode == Mode::EvalKernel {
            use yui_kh::kh::internal::v2::cob::{CobComp, Dot};
            // arithmetic in A on pairs (a, b) = a + bX, independent of the library
            let mul = |p: &(I, I), q: &(I, I)| -> (I, I) {
                let (a, b) = p;
                let (c, d) = q;
                // (a+bX)(c+dX) = ac + (ad+bc)X + bd(hX+t)
                let bd = b * d;
                (&(a * c) + &(&bd * &t), &(&(a * d) + &(b * c)) + &(&bd * &h))
            };
            let x = (I::zero(), I::one());
            let y = (-&h, I::one());
            let handle = (-&h, I::lit(2));
            for g in 0..=3usize {
                for nx in 0..=3usize {
                    for ny in 0..=3usize {
                        let mut c = CobComp::closed(g);
                        for _ in 0..nx {
                            c.add_dot(Dot::X);
                        }
                        for _ in 0..ny {
                            c.add_dot(Dot::Y);
                        }
                        let got: I = c.eval(&h, &t);
                        let mut acc = (I::one(), I::zero());
                        for _ in 0..g {
                            acc = mul(&acc, &handle);
                        }
                        for _ in 0..nx {
                            acc = mul(&acc, &x);
                        }
                        for _ in 0..ny {
                            acc = mul(&acc, &y);
                        }
                        // counit: eps(a + bX) = b
                        I::oblige(&format!("eval(genus {}, {} X-dots, {} Y-dots)", g, nx, ny), VF::zero(&got - &acc.1));
                    }
                }
            }
            return;
        }
        let link = link_of(&self.pd, self.mirror);
        let c = KhComplex::<I>::new(&link, &h, &t, self.reduced);
        match self.mode {
            Mode::ChainComplex => {
                let sup: Vec<isize> = c.support().collect();
                for &i in &sup {
                    let d0 = c.d_matrix(i);
                    let d1 = c.d_matrix(i + 1);
                    I::oblige(&format!("shape of d_{}", i), VF::of_bool(d0.shape() == (c.rank(i + 1), c.rank(i))));
                    if d1.ncols() != d0.nrows() {
                        I::oblige(&format!("d_{} and d_{} composable", i + 1, i), VF::False);
                        continue;
                    }
                    let (g0, g1) = (sp_to_grid(&d0), sp_to_grid(&d1));
                    let p = grid_mul(&g1, &g0, d0.nrows(), d0.ncols());
                    for (a, row) in p.iter().enumerate() {
                        for (b, e) in row.iter().enumerate() {
                            I::oblige(&format!("(d_{} d_{})[{},{}] = 0", i + 1, i, a, b), VF::zero(e.clone()));
                        }
                    }
                    // d raises homological degree by one: generators of C^i have h_deg i
                    for x in c[i].raw_gens().iter() {
                        I::oblige("generator sits in its homological degree", VF::of_bool(x.h_deg() == i));
                    }
                }
            }
            Mode::EvalKernel => unreachable!(),
            Mode::Homology => {
                if self.ring == crate::props::c09::RingSel::Q {
                    let (hq, tq) = (yui::Ratio::from(h.clone()), yui::Ratio::from(t.clone()));
                    let cq = KhComplex::<yui::Ratio<I>>::new(&link, &hq, &tq, self.reduced);
                    let kh = cq.homology();
                    let lib: Vec<(isize, usize, Vec<yui::Ratio<I>>)> = kh.support().map(|i| (i, kh[i].rank(), kh[i].tors().to_vec())).collect();
                    compare_with_reference::<I, yui::Ratio<I>>(&self.pd, self.mirror, self.reduced, &hq, &tq, &lib, "Kh over Q");
                } else {
                    let kh = c.homology();
                    let lib: Vec<(isize, usize, Vec<I>)> = kh.support().map(|i| (i, kh[i].rank(), kh[i].tors().to_vec())).collect();
                    compare_with_reference::<I, I>(&self.pd, self.mirror, self.reduced, &h, &t, &lib, "Kh");
                }
            }
        }
    }
}

pub fn configs(tier: crate::registry::Tier, _seed: u64) -> Vec<crate::registry::Entry> {
    use crate::registry::{entry, Tier};
    let mut v = Vec::new();
    v.push(entry(Kh { ring: crate::props::c09::RingSel::Z, name: "closed-surfaces", pd: vec![], mirror: false, reduced: false, b: Some(3), mode: Mode::EvalKernel }, 200, 120.0));
    for (name, pd) in khref::catalogue() {
        let n = pd.len();
        if n > 3 && tier == Tier::Quick {
            continue;
        }
        let knot = name != "hopf";
        for mirror in [false, true] {
            for reduced in [false, true] {
                if reduced && !knot {
                    continue;
                }
                let b = if n <= 2 { 2 } else { 1 };
                let b = if tier == Tier::Thorough { b + 1 } else { b };
                v.push(entry(Kh { ring: crate::props::c09::RingSel::Z, name, pd: pd.clone(), mirror, reduced, b: Some(if reduced { b + 1 } else { b }), mode: Mode::Homology }, 200, if tier == Tier::Quick { 240.0 } else { 1800.0 }));
                if !reduced && (n <= 3 || tier == Tier::Thorough) {
                    v.push(entry(Kh { ring: crate::props::c09::RingSel::Q, name, pd: pd.clone(), mirror, reduced, b: Some(b), mode: Mode::Homology }, 200, if tier == Tier::Quick { 240.0 } else { 1800.0 }));
                }
            }
        }
    }
    // larger diagrams from the repository's table (5-6 crossings): Z and Q, (h,t) in [-1,1]^2 (quick) / [-2,2]^2 (thorough)
    for (name, pd) in khref::big_catalogue() {
        let quick_set = ["5_2", "L5a1", "6_2"];
        if tier == Tier::Quick && !quick_set.contains(&name) {
            continue;
        }
        for mirror in [false, true] {
            for ring in [crate::props::c09::RingSel::Z, crate::props::c09::RingSel::Q] {
                v.push(entry(Kh { ring, name, pd: pd.clone(), mirror, reduced: false, b: Some(if tier == Tier::Quick { if ring == crate::props::c09::RingSel::Q { 1 } else { 2 } } else { 3 }), mode: Mode::Homology }, 120, if tier == Tier::Quick { 150.0 } else { 1800.0 }));
            }
        }
    }
    v
}

pub fn configs_c05a(tier: crate::registry::Tier, _seed: u64) -> Vec<crate::registry::Entry> {
    use crate::registry::{entry, Tier};
    let mut v = Vec::new();
    for (name, pd) in khref::catalogue() {
        if pd.len() > 3 && tier == Tier::Quick {
            continue;
        }
        let knot = name != "hopf";
        for mirror in [false, true] {
            // (h,t) unbounded: the verdict of each class holds for all integers in the class
            v.push(entry(Kh { ring: crate::props::c09::RingSel::Z, name, pd: pd.clone(), mirror, reduced: false, b: None, mode: Mode::ChainComplex }, 60, 120.0));
            if knot {
                v.push(entry(Kh { ring: crate::props::c09::RingSel::Z, name, pd: pd.clone(), mirror, reduced: true, b: None, mode: Mode::ChainComplex }, 60, 120.0));
            }
        }
    }
    v
}
