//! C12 — sparse kernels: triangular solve, Schur complement, direct-sum splitting
use crate::ctx::Rel;
use crate::explore::{Harness, InputSpec};
use crate::props::c09::RingSel;
use crate::util::*;
use crate::vint::{VInt, VIntOps, VF};
use num_traits::{One, Zero};
use yui::{GaussInt, Ratio, Ring, RingOps};
use yui_matrix::sparse::decomp::dir_sum_decomp;
use yui_matrix::sparse::schur::Schur;
use yui_matrix::sparse::triang::{inv_triangular, solve_triangular, solve_triangular_left, solve_triangular_vec, TriangularType};
use yui_matrix::sparse::{SpMat, SpVec};
use yui_matrix::MatTrait;

#[derive(Clone, Copy, Debug, PartialEq)]
pub enum Kind {
    Solve,
    Schur,
    Decomp,
}

pub struct Kernels {
    pub ring: RingSel,
    pub kind: Kind,
    pub upper: bool,
    pub r: usize,
    pub m: usize, // Solve: number of right-hand sides k ; Schur/Decomp: rows
    pub n: usize, // Schur/Decomp: cols
    pub stored_zeros: bool,
    pub b: i64,
}

fn tri_grid<R: Ring>(upper: bool, r: usize, diag: &[R], strict: &[R]) -> Grid<R>
where
    for<'x> &'x R: RingOps<R>,
{
    let mut g: Grid<R> = (0..r).map(|_| (0..r).map(|_| R::zero()).collect()).collect();
    let mut k = 0;
    for i in 0..r {
        g[i][i] = diag[i].clone();
        for j in 0..r {
            if (upper && i < j) || (!upper && i > j) {
                g[i][j] = strict[k].clone();
                k += 1;
            }
        }
    }
    g
}

fn sp_from<R: Ring + nalgebra_scalar::Sc>(g: &Grid<R>, m: usize, n: usize, stored_zeros: bool, upper: Option<bool>) -> SpMat<R>
where
    for<'x> &'x R: RingOps<R>,
{
    if !stored_zeros {
        return grid_to_sp(g, m, n);
    }
    // keep every entry of the admissible triangle (or of the whole matrix) as a stored value, zero or not
    SpMat::from_col_vecs(m, (0..n).map(|j| {
        SpVec::from_sorted_entries(m, (0..m).filter(|&i| match upper {
            Some(true) => i <= j,
            Some(false) => i >= j,
            None => true,
        }).map(|i| (i, g[i][j].clone())))
    }))
}

fn build_grid_r<R: Clone>(m: usize, n: usize, xs: &[R]) -> Grid<R> {
    (0..m).map(|i| (0..n).map(|j| xs[i * n + j].clone()).collect()).collect()
}

fn grid_sub<R: Ring>(a: &Grid<R>, b: &Grid<R>) -> Grid<R>
where
    for<'x> &'x R: RingOps<R>,
{
    a.iter().zip(b).map(|(x, y)| x.iter().zip(y).map(|(s, t)| s - t).collect()).collect()
}

impl Kernels {
    fn n_strict(&self) -> usize {
        self.r * (self.r.saturating_sub(1)) / 2
    }
    fn run<I, R>(&self, xs: &[I])
    where
        I: VInt,
        for<'x> &'x I: VIntOps<I>,
        R: VRing<I> + nalgebra_scalar::Sc + std::fmt::Display + Send + Sync,
        for<'x> &'x R: RingOps<R>,
    {
        // all inputs are consumed R::ARITY at a time
        let xs: Vec<R> = xs.chunks(R::ARITY).map(|c| R::build(c)).collect();
        let xs = &xs[..];
        let r = self.r;
        let t = if self.upper { TriangularType::Upper } else { TriangularType::Lower };
        match self.kind {
            Kind::Solve => {
                let k = self.m;
                let diag = &xs[..r];
                let strict = &xs[r..r + self.n_strict()];
                let rest = &xs[r + self.n_strict()..];
                let ga = tri_grid(self.upper, r, diag, strict);
                // stored-zero variant: explicit zeros everywhere, also on the wrong side of the diagonal (valid: is_triang ignores stored zeros)
                let a = sp_from(&ga, r, r, self.stored_zeros, None);
                let gy: Grid<R> = build_grid_r::<R>(r, k, &rest[..r * k]);
                let gy2: Grid<R> = build_grid_r::<R>(r, k, &rest[r * k..2 * r * k]);
                let gz: Grid<R> = build_grid_r::<R>(k, r, &rest[2 * r * k..3 * r * k]);
                let gv: Vec<R> = rest[3 * r * k..3 * r * k + r].to_vec();
                // two consecutive solves on the same worker: the scratch buffer must come back to zero in between
                for (round, g) in [&gy, &gy2].into_iter().enumerate() {
                    let y = sp_from(g, r, k, self.stored_zeros && round == 0, None);
                    let x = solve_triangular(t, &a, &y);
                    I::oblige("X shape", VF::of_bool(x.shape() == (r, k)));
                    if x.shape() == (r, k) && r > 0 && k > 0 {
                        oblige_grid_eq::<I, R>(&format!("A X = Y (solve #{})", round), &grid_mul(&ga, &sp_to_grid(&x), r, k), g);
                    }
                }
                let z = grid_to_sp(&gz, k, r);
                let xl = solve_triangular_left(t, &a, &z);
                I::oblige("X shape (left)", VF::of_bool(xl.shape() == (k, r)));
                if xl.shape() == (k, r) && r > 0 && k > 0 {
                    oblige_grid_eq::<I, R>("X A = Y (left solve)", &grid_mul(&sp_to_grid(&xl), &ga, r, r), &gz);
                }
                let v = SpVec::from(gv.clone());
                let xv = solve_triangular_vec(t, &a, &v).to_dense();
                for i in 0..r {
                    let s = (0..r).fold(R::zero(), |s, j| &s + &(&ga[i][j] * &xv[j]));
                    oblige_zero::<I, R>(&format!("A x = v [{}]", i), &(&s - &gv[i]));
                }
                let inv = inv_triangular(t, &a);
                if r > 0 {
                    oblige_grid_eq::<I, R>("A Ainv = I", &grid_mul(&ga, &sp_to_grid(&inv), r, r), &grid_id::<R>(r));
                    oblige_grid_eq::<I, R>("Ainv A = I", &grid_mul(&sp_to_grid(&inv), &ga, r, r), &grid_id::<R>(r));
                }
            }
            Kind::Schur => {
                let (m, n) = (self.m, self.n);
                let diag = &xs[..r];
                let strict = &xs[r..r + self.n_strict()];
                let rest = &xs[r + self.n_strict()..];
                let ga = tri_grid(self.upper, r, diag, strict);
                let gb: Grid<R> = build_grid_r::<R>(r, n - r, &rest[..r * (n - r)]);
                let gc: Grid<R> = build_grid_r::<R>(m - r, r, &rest[r * (n - r)..r * (n - r) + (m - r) * r]);
                let gd: Grid<R> = build_grid_r::<R>(m - r, n - r, &rest[r * (n - r) + (m - r) * r..]);
                let mut gm: Grid<R> = Vec::new();
                for i in 0..r {
                    gm.push(ga[i].iter().chain(gb[i].iter()).cloned().collect());
                }
                for i in 0..m - r {
                    gm.push(gc[i].iter().chain(gd[i].iter()).cloned().collect());
                }
                let mat = if self.stored_zeros {
                    // explicit zeros everywhere except inside the forbidden triangle of the leading block
                    SpMat::from_col_vecs(m, (0..n).map(|j| SpVec::from_sorted_entries(m, (0..m).filter(|&i| !(i < r && j < r) || (self.upper && i <= j) || (!self.upper && i >= j)).map(|i| (i, gm[i][j].clone())))))
                } else {
                    grid_to_sp(&gm, m, n)
                };
                for round in 0..2 {
                    let sch = Schur::from_partial_triangular(t, &mat, r, true);
                    let s = sp_to_grid(sch.complement());
                    I::oblige("S shape", VF::of_bool(sch.complement().shape() == (m - r, n - r)));
                    if sch.complement().shape() != (m - r, n - r) {
                        return;
                    }
                    let (ts, tt) = (sch.trans_src().unwrap(), sch.trans_tgt().unwrap());
                    let (fs, bs) = (sp_to_grid(&ts.forward_mat()), sp_to_grid(&ts.backward_mat()));
                    let (ft, bt) = (sp_to_grid(&tt.forward_mat()), sp_to_grid(&tt.backward_mat()));
                    I::oblige("trans dims", VF::of_bool(ts.src_dim() == n && ts.tgt_dim() == n - r && tt.src_dim() == m && tt.tgt_dim() == m - r));
                    // S = D - C A^-1 B  <=>  with X := -(top block of B_src):  A X = B  and  S = D - C X
                    if r > 0 && n > r {
                        let x: Grid<R> = (0..r).map(|i| bs[i].iter().map(|e| -e).collect()).collect();
                        oblige_grid_eq::<I, R>(&format!("A X = B (round {})", round), &grid_mul(&ga, &x, r, n - r), &gb);
                        if m > r {
                            oblige_grid_eq::<I, R>(&format!("S = D - C X (round {})", round), &grid_sub(&gd, &grid_mul(&gc, &x, r, n - r)), &s);
                        }
                    } else if m > r && n > r {
                        oblige_grid_eq::<I, R>("S = D (r = 0)", &gd, &s);
                    }
                    // F_tgt M B_src = S ;  F B = I on both sides
                    if m > r && n > r {
                        let fm = grid_mul(&ft, &gm, m, n);
                        oblige_grid_eq::<I, R>(&format!("F_tgt M B_src = S (round {})", round), &grid_mul(&fm, &bs, n, n - r), &s);
                    }
                    if n > r {
                        oblige_grid_eq::<I, R>("F_src B_src = I", &grid_mul(&fs, &bs, n, n - r), &grid_id::<R>(n - r));
                    }
                    if m > r {
                        oblige_grid_eq::<I, R>("F_tgt B_tgt = I", &grid_mul(&ft, &bt, m, m - r), &grid_id::<R>(m - r));
                    }
                }
            }
            Kind::Decomp => {
                let (m, n) = (self.m, self.n);
                let g: Grid<R> = if self.r > 0 {
                    // tall-thin shape (r > 0): column 0 fully symbolic, column 1 has r symbolic entries in rows m/3.. and
                    // structural zeros elsewhere - a long column next to a very short one
                    let i1 = m / 3;
                    (0..m).map(|i| (0..n).map(|j| if j == 0 { xs[i].clone() } else if j == 1 && i >= i1 && i < i1 + self.r { xs[m + i - i1].clone() } else { R::zero() }).collect()).collect()
                } else {
                    build_grid_r::<R>(m, n, xs)
                };
                let a = if self.stored_zeros { sp_from(&g, m, n, true, None) } else { grid_to_sp(&g, m, n) };
                let (p, q, blocks) = dir_sum_decomp(a.clone());
                // reference permuted matrix: entry (i, j) -> (p(i), q(j))
                let mut want: Grid<R> = (0..m).map(|_| (0..n).map(|_| R::zero()).collect()).collect();
                for i in 0..m {
                    for j in 0..n {
                        want[p.view().at(i)][q.view().at(j)] = g[i][j].clone();
                    }
                }
                // block-diagonal sum of the returned blocks, padded with zero rows / columns
                let mut sum: Grid<R> = (0..m).map(|_| (0..n).map(|_| R::zero()).collect()).collect();
                let (mut r0, mut c0) = (0, 0);
                let mut fits = true;
                for bl in &blocks {
                    let (bm, bn) = bl.shape();
                    if r0 + bm > m || c0 + bn > n {
                        fits = false;
                        break;
                    }
                    let bg = sp_to_grid(bl);
                    for i in 0..bm {
                        for j in 0..bn {
                            sum[r0 + i][c0 + j] = bg[i][j].clone();
                        }
                    }
                    r0 += bm;
                    c0 += bn;
                }
                I::oblige("blocks fit into the matrix", VF::of_bool(fits));
                if fits && m > 0 && n > 0 {
                    oblige_grid_eq::<I, R>("permuted matrix = direct sum of blocks", &want, &sum);
                }
                // no block splits further when no explicit zero is stored: each block's bipartite row/column graph is connected
                if !self.stored_zeros {
                    for (bi, bl) in blocks.iter().enumerate() {
                        let (bm, bn) = bl.shape();
                        let bg = sp_to_grid(bl);
                        // union-find over rows (0..bm) and columns (bm..bm+bn) on the class's concrete zero pattern
                        let mut parent: Vec<usize> = (0..bm + bn).collect();
                        fn find(p: &mut Vec<usize>, x: usize) -> usize {
                            let mut x = x;
                            while p[x] != x {
                                p[x] = p[p[x]];
                                x = p[x];
                            }
                            x
                        }
                        for i in 0..bm {
                            for j in 0..bn {
                                if !bg[i][j].is_zero() {
                                    let (a, b) = (find(&mut parent, i), find(&mut parent, bm + j));
                                    parent[a] = b;
                                }
                            }
                        }
                        let roots: std::collections::BTreeSet<usize> = (0..bm + bn).map(|x| find(&mut parent, x)).collect();
                        // the un-split whole matrix (single block) may contain zero rows/cols; proper blocks must be connected
                        if blocks.len() > 1 || (bm, bn) != (m, n) {
                            I::oblige(&format!("block {} is connected", bi), VF::of_bool(roots.len() <= 1 || bm + bn == 0));
                        }
                    }
                }
            }
        }
    }
}

impl Harness for Kernels {
    fn id(&self) -> String {
        format!("kernels/{:?}/{:?}/{}/r{}/{}x{}/{}B{}", self.ring, self.kind, if self.upper { "upper" } else { "lower" }, self.r, self.m, self.n, if self.stored_zeros { "stored0/" } else { "" }, self.b)
    }
    fn functions(&self) -> Vec<&'static str> {
        match self.kind {
            Kind::Solve => vec!["triang::{solve_triangular,solve_triangular_m,solve_triangular_left,solve_triangular_vec,inv_triangular,_solve_triangular,collect_diag,copy_into}"],
            Kind::Schur => vec!["schur::Schur::{from_partial_triangular,compute_schur,complement,trans_src,trans_tgt}", "SpMat::{divide4,stack,extend_cols}", "triang::solve_triangular(_left)"],
            Kind::Decomp => vec!["decomp::{dir_sum_decomp,dir_sum_indices,group_cols,col_intersects,rows_in,decomp_by}", "util::perm_for_indices", "yui::UnionFind"],
        }
    }
    fn pre<I: VInt>(&self, xs: &[I])
    where
        for<'x> &'x I: VIntOps<I>,
    {
        self.pre_impl::<I>(xs)
    }
    fn body<I: VInt>(&self, xs: &[I])
    where
        for<'x> &'x I: VIntOps<I>,
    {
        self.body_impl::<I>(xs)
    }
    fn inputs(&self) -> Vec<InputSpec> {
        let v = self.inputs_z();
        match self.ring {
            RingSel::Gauss => v.into_iter().flat_map(|s| [InputSpec { name: format!("{}r", s.name), ..s.clone() }, InputSpec { name: format!("{}i", s.name), ..s.clone() }]).collect(),
            // Q: diagonal entries are arbitrary non-zero integers (units of Q) within the box
            RingSel::Q => v.into_iter().map(|s| if s.name.starts_with('u') { InputSpec::boxed(&s.name, self.b.max(2)) } else { s }).collect(),
            _ => v,
        }
    }
}

impl Kernels {
    fn inputs_z(&self) -> Vec<InputSpec> {
        let r = self.r;
        let mut v = Vec::new();
        match self.kind {
            Kind::Solve => {
                for i in 0..r {
                    v.push(InputSpec::range(&format!("u{}", i), -1, 1));
                }
                for i in 0..self.n_strict() {
                    v.push(InputSpec::boxed(&format!("a{}", i), self.b));
                }
                for i in 0..3 * r * self.m + r {
                    v.push(InputSpec::boxed(&format!("y{}", i), self.b));
                }
            }
            Kind::Schur => {
                for i in 0..r {
                    v.push(InputSpec::range(&format!("u{}", i), -1, 1));
                }
                for i in 0..self.n_strict() {
                    v.push(InputSpec::boxed(&format!("a{}", i), self.b));
                }
                for i in 0..(self.m * self.n - r * r) {
                    v.push(InputSpec::boxed(&format!("m{}", i), self.b));
                }
            }
            Kind::Decomp => {
                for i in 0..(if self.r > 0 { self.m + self.r } else { self.m * self.n }) {
                    v.push(InputSpec::boxed(&format!("a{}", i), self.b));
                }
            }
        }
        v
    }
}

impl Kernels {
    fn pre_impl<I: VInt>(&self, xs: &[I])
    where
        for<'x> &'x I: VIntOps<I>,
    {
        if self.kind != Kind::Decomp {
            for i in 0..self.r {
                match self.ring {
                    // units of Z: u^2 = 1
                    RingSel::Z => I::assume(VF::zero(&(&xs[i] * &xs[i]) - &I::one())),
                    // units of Z[i]: norm a^2 + b^2 = 1
                    RingSel::Gauss => I::assume(VF::zero(&(&(&xs[2 * i] * &xs[2 * i]) + &(&xs[2 * i + 1] * &xs[2 * i + 1])) - &I::one())),
                    // units of Q: non-zero
                    _ => I::assume(VF::nonzero(xs[i].clone())),
                }
            }
        }
    }
    fn body_impl<I: VInt>(&self, xs: &[I])
    where
        for<'x> &'x I: VIntOps<I>,
    {
        match self.ring {
            RingSel::Z => self.run::<I, I>(xs),
            RingSel::Gauss => self.run::<I, GaussInt<I>>(xs),
            _ => self.run::<I, Ratio<I>>(xs),
        }
    }
}

pub fn configs(tier: crate::registry::Tier, _seed: u64) -> Vec<crate::registry::Entry> {
    use crate::registry::{entry, Tier};
    let mut v = Vec::new();
    for upper in [true, false] {
        for stored_zeros in [false, true] {
            for (r, k) in [(1, 1), (2, 1), (2, 2), (3, 1)] {
                v.push(entry(Kernels { ring: RingSel::Z, kind: Kind::Solve, upper, r, m: k, n: 0, stored_zeros, b: 2 }, 6000, 90.0));
            }
            for (r, m, n) in [(0, 2, 2), (1, 2, 2), (2, 2, 2), (1, 3, 2), (2, 3, 3), (1, 1, 3), (2, 2, 3)] {
                v.push(entry(Kernels { ring: RingSel::Z, kind: Kind::Schur, upper, r, m, n, stored_zeros, b: 2 }, 6000, 90.0));
            }
        }
    }
    v.push(entry(Kernels { ring: RingSel::Z, kind: Kind::Solve, upper: true, r: 0, m: 1, n: 0, stored_zeros: false, b: 1 }, 5, 5.0));
    for stored_zeros in [false, true] {
        for (m, n) in [(2, 2), (2, 3), (3, 2), (3, 3), (1, 3), (0, 2), (2, 0)] {
            v.push(entry(Kernels { ring: RingSel::Z, kind: Kind::Decomp, upper: false, r: 0, m, n, stored_zeros, b: 1 }, 8000, 90.0));
        }
    }
    // tall-thin: a 17-row column next to a 2-entry column (length-dependent code paths of the column-intersection test)
    v.push(entry(Kernels { ring: RingSel::Z, kind: Kind::Decomp, upper: false, r: 2, m: 17, n: 2, stored_zeros: false, b: 1 }, 600, 60.0));
    if tier == Tier::Thorough {
        v.push(entry(Kernels { ring: RingSel::Z, kind: Kind::Decomp, upper: false, r: 3, m: 25, n: 3, stored_zeros: false, b: 1 }, 600, 120.0));
    }
    // units other than +-1: Z[i] (units +-1, +-i as a solver-side precondition) and Q (any non-zero diagonal)
    for ring in [RingSel::Gauss, RingSel::Q] {
        for upper in [true, false] {
            v.push(entry(Kernels { ring, kind: Kind::Solve, upper, r: 2, m: 2, n: 0, stored_zeros: false, b: 1 }, 400, 90.0));
            v.push(entry(Kernels { ring, kind: Kind::Solve, upper, r: 1, m: 2, n: 0, stored_zeros: true, b: 2 }, 400, 60.0));
            v.push(entry(Kernels { ring, kind: Kind::Schur, upper, r: 1, m: 2, n: 2, stored_zeros: false, b: 1 }, 400, 90.0));
            v.push(entry(Kernels { ring, kind: Kind::Schur, upper, r: 2, m: 3, n: 3, stored_zeros: false, b: 1 }, 400, 120.0));
        }
    }
    if tier == Tier::Thorough {
        for upper in [true, false] {
            v.push(entry(Kernels { ring: RingSel::Z, kind: Kind::Solve, upper, r: 3, m: 2, n: 0, stored_zeros: false, b: 3 }, 20000, 900.0));
            v.push(entry(Kernels { ring: RingSel::Z, kind: Kind::Schur, upper, r: 2, m: 4, n: 4, stored_zeros: false, b: 2 }, 20000, 900.0));
            v.push(entry(Kernels { ring: RingSel::Z, kind: Kind::Schur, upper, r: 3, m: 4, n: 4, stored_zeros: true, b: 2 }, 20000, 900.0));
        }
        v.push(entry(Kernels { ring: RingSel::Z, kind: Kind::Decomp, upper: false, r: 0, m: 3, n: 4, stored_zeros: false, b: 1 }, 20000, 900.0));
        v.push(entry(Kernels { ring: RingSel::Z, kind: Kind::Decomp, upper: false, r: 0, m: 4, n: 3, stored_zeros: true, b: 1 }, 20000, 900.0));
    }
    v
}
