//! C02 — invariance under diagram moves, mirror duality
//! C03 — Z / Q / F2 / F3 consistency (universal coefficients), the two bigraded routes
//! C06 — canonical classes and the s-type invariant
use crate::ctx::Rel;
use crate::explore::{Harness, InputSpec};
use crate::khref::{self, Pd};
use crate::props::c01::link_of;
use crate::util::*;
use crate::vint::{VInt, VIntOps, VF};
use num_bigint::BigInt;
use num_traits::{One, ToPrimitive, Zero};
use std::collections::BTreeMap;
use yui::{EucRing, EucRingOps, Ratio, Ring, RingOps, FF, FF2};
use yui_homology::{isize2, ChainComplexTrait, GridTrait, SummandTrait};
use yui_kh::kh::{ss_invariant, KhChainExt, KhComplex, KhComplexBigraded, KhHomology};
use yui_link::{Braid, Link};

// ------------------------------------------------------------------ diagram moves on PD codes (harness side)

/// for every edge label: (source slot, target slot) under the orientation induced by the under-strands
fn edge_directions(pd: &Pd) -> Option<BTreeMap<usize, ((usize, usize), (usize, usize))>> {
    let n = pd.len();
    let mut by_edge: BTreeMap<usize, Vec<(usize, usize)>> = BTreeMap::new();
    for (c, x) in pd.iter().enumerate() {
        for j in 0..4 {
            by_edge.entry(x[j]).or_default().push((c, j));
        }
    }
    let mut incoming: Vec<[Option<bool>; 4]> = vec![[None; 4]; n];
    for c0 in 0..n {
        let (mut c, mut j) = (c0, 0);
        loop {
            if incoming[c][j].is_some() {
                break;
            }
            incoming[c][j] = Some(true);
            let out = (j + 2) % 4;
            incoming[c][out] = Some(false);
            let v = &by_edge[&pd[c][out]];
            let nx = if v[0] == (c, out) { v[1] } else { v[0] };
            c = nx.0;
            j = nx.1;
        }
    }
    let mut res = BTreeMap::new();
    for (e, v) in by_edge {
        if v.len() != 2 {
            return None;
        }
        let (a, b) = (v[0], v[1]);
        match (incoming[a.0][a.1], incoming[b.0][b.1]) {
            (Some(false), Some(true)) => res.insert(e, (a, b)),
            (Some(true), Some(false)) => res.insert(e, (b, a)),
            _ => return None,
        };
    }
    Some(res)
}

/// Reidemeister I: insert a kink on edge `e` (4 variants: under/over first x loop side)
pub fn r1(pd: &Pd, e: usize, variant: usize) -> Pd {
    let dirs = edge_directions(pd).expect("oriented diagram");
    let (_, tgt) = dirs[&e];
    let mx = pd.iter().flat_map(|x| x.iter().cloned()).max().unwrap();
    let (n1, n2) = (mx + 1, mx + 2);
    let mut out = pd.clone();
    out[tgt.0][tgt.1] = n1;
    out.push(match variant % 4 {
        0 => [e, n2, n2, n1],
        1 => [e, n1, n2, n2],
        2 => [n2, e, n1, n2],
        _ => [n2, n2, n1, e],
    });
    out
}

pub fn renumber(pd: &Pd, shift: usize) -> Pd {
    let mut labels: Vec<usize> = pd.iter().flat_map(|x| x.iter().cloned()).collect();
    labels.sort();
    labels.dedup();
    let k = labels.len();
    // a multiplier coprime to k makes i -> (i*mult + shift) mod k a bijection of the labels
    fn gcd(a: usize, b: usize) -> usize { if b == 0 { a } else { gcd(b, a % b) } }
    let mult = (5..).find(|m| gcd(*m, k.max(1)) == 1).unwrap();
    let map: BTreeMap<usize, usize> = labels.iter().enumerate().map(|(i, &e)| (e, 10 + ((i * mult + shift) % k) * 3)).collect();
    debug_assert!(map.values().collect::<std::collections::BTreeSet<_>>().len() == k);
    pd.iter().map(|x| [map[&x[0]], map[&x[1]], map[&x[2]], map[&x[3]]]).collect()
}

pub fn reorder(pd: &Pd, rot: usize) -> Pd {
    let n = pd.len();
    (0..n).map(|i| pd[(i + rot) % n]).rev().collect()
}

pub fn reverse_orientation(pd: &Pd) -> Pd {
    pd.iter().map(|x| [x[2], x[3], x[0], x[1]]).collect()
}

pub fn pd_of(l: &Link) -> Pd {
    l.data().iter().map(|x| *x.edges()).collect()
}

pub fn braid_pd(strands: usize, word: &[i32]) -> Pd {
    pd_of(&Braid::new(strands, word.iter().map(|&g| g.into()).collect()).closure())
}

/// `braid_pd`, empty if `Braid::closure` panics (configurations are built outside any run)
pub fn try_braid_pd(strands: usize, word: &[i32]) -> Pd {
    let w = word.to_vec();
    std::panic::catch_unwind(move || braid_pd(strands, &w)).unwrap_or_else(|_| {
        eprintln!("Braid::closure panicked on {:?} ({} strands): pair skipped", word, strands);
        vec![]
    })
}

fn trefoil() -> Pd {
    vec![[1, 4, 2, 5], [3, 6, 4, 1], [5, 2, 6, 3]]
}
fn figure8() -> Pd {
    vec![[4, 2, 5, 1], [8, 6, 1, 5], [6, 3, 7, 4], [2, 7, 3, 8]]
}
fn hopf() -> Pd {
    vec![[4, 1, 3, 2], [2, 3, 1, 4]]
}

/// pairs of diagrams of the same oriented link (name, A, B, knot?)
pub fn move_pairs(thorough: bool, seed: u64) -> Vec<(String, Pd, Pd, bool)> {
    let mut v: Vec<(String, Pd, Pd, bool)> = Vec::new();
    let t = trefoil();
    let s = seed as usize;
    for variant in 0..4 {
        v.push((format!("trefoil~R1v{}@e{}", variant, 1 + (s + variant) % 6), t.clone(), r1(&t, 1 + (s + variant) % 6, variant), true));
    }
    v.push(("trefoil~renumbered".into(), t.clone(), renumber(&t, s), true));
    v.push(("trefoil~reordered".into(), t.clone(), reorder(&t, 1 + s % 2), true));
    v.push(("trefoil~reversed".into(), t.clone(), reverse_orientation(&t), true));
    // pure rotations of the crossing list (every crossing gets to be listed first)
    for r in 1..3 {
        v.push((format!("trefoil~rotated{}", r), t.clone(), (0..3).map(|i| t[(i + r) % 3]).collect(), true));
    }
    v.push(("figure8~rotated2".into(), figure8(), (0..4).map(|i| figure8()[(i + 2) % 4]).collect(), true));
    // a diagram with an over-only component against itself renumbered / reordered
    let oc: Pd = vec![[8, 4, 2, 5], [3, 6, 4, 1], [5, 2, 6, 3], [1, 9, 7, 10], [7, 9, 8, 10]];
    v.push(("trefoil+over-circle~renumbered".into(), oc.clone(), renumber(&oc, s), false));
    v.push(("hopf~reversed-both".into(), hopf(), reverse_orientation(&hopf()), false));
    v.push(("hopf~R1".into(), hopf(), r1(&hopf(), 1 + s % 4, s % 4), false));
    v.push(("kink~kink".into(), vec![[1, 2, 2, 1]], vec![[1, 1, 2, 2]], true));
    v.push(("kink~2kinks".into(), vec![[1, 1, 2, 2]], r1(&vec![[1, 1, 2, 2]], 1, s % 4), true));
    // braid relations and Markov moves before closure
    v.push(("braid s1^3 ~ stabilised+".into(), try_braid_pd(2, &[1, 1, 1]), try_braid_pd(3, &[1, 1, 1, 2]), true));
    v.push(("braid s1^3 ~ stabilised-".into(), try_braid_pd(2, &[1, 1, 1]), try_braid_pd(3, &[1, 1, 1, -2]), true));
    v.push(("braid s1s2s1 ~ s2s1s2 (x s1)".into(), try_braid_pd(3, &[1, 2, 1, 1]), try_braid_pd(3, &[2, 1, 2, 1]), true));
    v.push(("braid conjugation".into(), try_braid_pd(3, &[1, -2, 1, -2]), try_braid_pd(3, &[-2, 1, -2, 1]), true));
    v.push(("braid far commutation".into(), try_braid_pd(4, &[1, 3, 2]), try_braid_pd(4, &[3, 1, 2]), true));
    if thorough {
        let f = figure8();
        for variant in 0..4 {
            v.push((format!("figure8~R1v{}", variant), f.clone(), r1(&f, 1 + (s + 2 * variant) % 8, variant), true));
        }
        v.push(("figure8~reversed".into(), f.clone(), reverse_orientation(&f), true));
        v.push(("figure8~renumbered+reordered".into(), f.clone(), reorder(&renumber(&f, s), 2), true));
        v.push(("trefoil~R1,R1".into(), t.clone(), r1(&r1(&t, 2, s), 5, s + 1), true));
        v.push(("braid R2 insertion".into(), try_braid_pd(2, &[1, 1, 1]), try_braid_pd(2, &[1, 1, 1, 1, -1]), true));
        v.push(("braid s1^-3 ~ PD trefoil".into(), try_braid_pd(2, &[-1, -1, -1]), t.clone(), true));
        v.push(("braid figure8 ~ PD figure8".into(), try_braid_pd(3, &[1, -2, 1, -2]), f.clone(), true));
        v.push(("braid relation inside".into(), try_braid_pd(3, &[1, 2, 1, 2, 2]), try_braid_pd(3, &[2, 1, 2, 2, 2]), true));
    }
    // a pair whose braid closure could not be built (see `try_braid_pd`) is dropped here: C18 judges `Braid::closure`
    v.retain(|e| !e.1.is_empty() && !e.2.is_empty());
    // the knot flag is recomputed from the diagram (strand relation), never trusted from the table above
    for e in v.iter_mut() {
        e.3 = pd_components(&e.1) == 1 && pd_components(&e.2) == 1;
    }
    v
}

/// number of components of a PD code: orbits of the strand-through-crossing relation on edge labels
pub fn pd_components(pd: &Pd) -> usize {
    let mut labels: Vec<usize> = pd.iter().flat_map(|x| x.iter().cloned()).collect();
    labels.sort();
    labels.dedup();
    let idx: BTreeMap<usize, usize> = labels.iter().enumerate().map(|(i, &e)| (e, i)).collect();
    let mut parent: Vec<usize> = (0..labels.len()).collect();
    fn find(p: &mut Vec<usize>, x: usize) -> usize {
        let mut x = x;
        while p[x] != x {
            p[x] = p[p[x]];
            x = p[x];
        }
        x
    }
    for x in pd {
        for (a, b) in [(0, 2), (1, 3)] {
            let (ra, rb) = (find(&mut parent, idx[&x[a]]), find(&mut parent, idx[&x[b]]));
            if ra != rb {
                parent[ra] = rb;
            }
        }
    }
    (0..labels.len()).filter(|&i| find(&mut parent, i) == i).count()
}

pub fn lib_signature<R>(l: &Link, h: &R, t: &R, reduced: bool) -> Vec<(isize, usize, Vec<R>)>
where
    R: EucRing,
    for<'x> &'x R: EucRingOps<R>,
{
    let kh = KhHomology::new(l, h, t, reduced);
    kh.support().map(|i| (i, kh[i].rank(), kh[i].tors().to_vec())).filter(|s| s.1 > 0 || !s.2.is_empty()).collect()
}

fn oblige_same<I: VInt>(label: &str, a: &[(isize, usize, Vec<I>)], b: &[(isize, usize, Vec<I>)], map_free: &dyn Fn(isize) -> isize, map_tor: &dyn Fn(isize) -> isize)
where
    for<'x> &'x I: VIntOps<I>,
{
    // free ranks
    let fa: BTreeMap<isize, usize> = a.iter().filter(|s| s.1 > 0).map(|s| (s.0, s.1)).collect();
    let fb: BTreeMap<isize, usize> = b.iter().filter(|s| s.1 > 0).map(|s| (map_free(s.0), s.1)).collect();
    I::oblige(&format!("{}: free ranks {:?} vs {:?}", label, fa, fb), VF::of_bool(fa == fb));
    let ta: BTreeMap<isize, &Vec<I>> = a.iter().filter(|s| !s.2.is_empty()).map(|s| (s.0, &s.2)).collect();
    let tb: BTreeMap<isize, &Vec<I>> = b.iter().filter(|s| !s.2.is_empty()).map(|s| (map_tor(s.0), &s.2)).collect();
    let ka: Vec<(isize, usize)> = ta.iter().map(|(k, v)| (*k, v.len())).collect();
    let kb: Vec<(isize, usize)> = tb.iter().map(|(k, v)| (*k, v.len())).collect();
    I::oblige(&format!("{}: torsion positions {:?} vs {:?}", label, ka, kb), VF::of_bool(ka == kb));
    if ka == kb {
        for (k, va) in &ta {
            for (x, y) in va.iter().zip(tb[k].iter()) {
                I::oblige(&format!("{}: torsion factor in degree {} associate", label, k), VF::Or(vec![VF::zero(x - y), VF::zero(x + y)]));
            }
        }
    }
}

pub struct Invariance {
    pub name: String,
    pub a: Pd,
    pub b: Pd,
    pub reduced: bool,
    pub mirror_test: bool, // compare A with mirror(A) instead of A with B
    pub bound: i64,
}

impl Harness for Invariance {
    fn id(&self) -> String {
        format!("invariance/{}{}{}/htB{}", self.name, if self.mirror_test { "/mirror-duality" } else { "" }, if self.reduced { "/reduced" } else { "" }, self.bound)
    }
    fn functions(&self) -> Vec<&'static str> {
        vec!["yui_kh::kh::KhHomology::new (TngComplexBuilder, ChainReducer, HomologyCalc)", "yui_link::Link::{from_pd_code,mirror,crossing_signs,signed_crossing_nums}", "yui_link::Braid::closure"]
    }
    fn inputs(&self) -> Vec<InputSpec> {
        if self.reduced { vec![InputSpec::boxed("h", self.bound)] } else { vec![InputSpec::boxed("h", self.bound), InputSpec::boxed("t", self.bound)] }
    }
    fn body<I: VInt>(&self, xs: &[I])
    where
        for<'x> &'x I: VIntOps<I>,
    {
        let (h, t) = if self.reduced { (xs[0].clone(), I::zero()) } else { (xs[0].clone(), xs[1].clone()) };
        let la = link_of(&self.a, false);
        let sa = lib_signature(&la, &h, &t, self.reduced);
        if self.mirror_test {
            let sm = lib_signature(&la.mirror(), &h, &t, self.reduced);
            // free part (i) <-> (-i), torsion (i) <-> (1 - i)
            oblige_same("mirror", &sa, &sm, &|i| -i, &|i| 1 - i);
            if h.is_zero() && t.is_zero() {
                // bigraded statement on the class h = t = 0
                let ba = KhHomology::new(&la, &h, &t, self.reduced).into_bigraded();
                let bm = KhHomology::new(&la.mirror(), &h, &t, self.reduced).into_bigraded();
                let table = |b: &yui_kh::kh::KhHomologyBigraded<I>| -> (BTreeMap<(isize, isize), usize>, BTreeMap<(isize, isize), usize>) {
                    let mut f = BTreeMap::new();
                    let mut t = BTreeMap::new();
                    for idx in b.support() {
                        let s = &b[(idx.0, idx.1)];
                        if s.rank() > 0 { f.insert((idx.0, idx.1), s.rank()); }
                        if !s.tors().is_empty() { t.insert((idx.0, idx.1), s.tors().len()); }
                    }
                    (f, t)
                };
                let (fa, ta) = table(&ba);
                let (fm, tm) = table(&bm);
                let fm2: BTreeMap<(isize, isize), usize> = fm.iter().map(|(k, v)| ((-k.0, -k.1), *v)).collect();
                let tm2: BTreeMap<(isize, isize), usize> = tm.iter().map(|(k, v)| ((1 - k.0, -k.1), *v)).collect();
                I::oblige(&format!("bigraded mirror: free {:?} vs {:?}", fa, fm2), VF::of_bool(fa == fm2));
                I::oblige(&format!("bigraded mirror: torsion {:?} vs {:?}", ta, tm2), VF::of_bool(ta == tm2));
            }
        } else {
            let lb = link_of(&self.b, false);
            let sb = lib_signature(&lb, &h, &t, self.reduced);
            oblige_same("moved diagram", &sa, &sb, &|i| i, &|i| i);
            if h.is_zero() && t.is_zero() {
                let ba = KhHomology::new(&la, &h, &t, self.reduced).into_bigraded();
                let bb = KhHomology::new(&lb, &h, &t, self.reduced).into_bigraded();
                let table = |b: &yui_kh::kh::KhHomologyBigraded<I>| -> BTreeMap<(isize, isize), (usize, usize)> {
                    let mut f = BTreeMap::new();
                    for idx in b.support() {
                        let s = &b[(idx.0, idx.1)];
                        if s.rank() > 0 || !s.tors().is_empty() { f.insert((idx.0, idx.1), (s.rank(), s.tors().len())); }
                    }
                    f
                };
                let (x, y) = (table(&ba), table(&bb));
                I::oblige(&format!("bigraded tables agree: {:?} vs {:?}", x, y), VF::of_bool(x == y));
            }
        }
    }
}

pub fn configs(tier: crate::registry::Tier, seed: u64) -> Vec<crate::registry::Entry> {
    use crate::registry::{entry, Tier};
    let th = tier == Tier::Thorough;
    let mut v = Vec::new();
    for (name, a, b, knot) in move_pairs(th, seed) {
        let big = a.len().max(b.len()) >= 4;
        v.push(entry(Invariance { name: name.clone(), a: a.clone(), b: b.clone(), reduced: false, mirror_test: false, bound: if big && !th { 1 } else { 2 } }, 100, if th { 1800.0 } else { 200.0 }));
        if knot && (th || !big) {
            v.push(entry(Invariance { name, a, b, reduced: true, mirror_test: false, bound: 3 }, 100, if th { 1800.0 } else { 200.0 }));
        }
    }
    for (name, pd) in khref::catalogue() {
        if pd.len() > 3 && !th {
            continue;
        }
        v.push(entry(Invariance { name: name.to_string(), a: pd.clone(), b: vec![], reduced: false, mirror_test: true, bound: 2 }, 100, if th { 1800.0 } else { 200.0 }));
        if name != "hopf" {
            v.push(entry(Invariance { name: name.to_string(), a: pd.clone(), b: vec![], reduced: true, mirror_test: true, bound: 3 }, 100, if th { 1800.0 } else { 200.0 }));
        }
    }
    v
}

// =================================================================================== C03

pub struct Coefficients {
    pub name: &'static str,
    pub pd: Pd,
    pub mirror: bool,
    pub reduced: bool,
    pub bound: i64,
}

fn bigraded_table<R>(b: &yui_kh::kh::KhHomologyBigraded<R>) -> BTreeMap<(isize, isize), (usize, usize)>
where
    R: EucRing,
    for<'x> &'x R: EucRingOps<R>,
{
    let mut f = BTreeMap::new();
    for idx in b.support() {
        let s = &b[(idx.0, idx.1)];
        if s.rank() > 0 || !s.tors().is_empty() {
            f.insert((idx.0, idx.1), (s.rank(), s.tors().len()));
        }
    }
    f
}

impl Harness for Coefficients {
    fn id(&self) -> String {
        format!("coefficients/{}{}{}/htB{}", self.name, if self.mirror { "-mirror" } else { "" }, if self.reduced { "/reduced" } else { "" }, self.bound)
    }
    fn functions(&self) -> Vec<&'static str> {
        vec!["KhHomology::<Z>::new, KhHomology::<Ratio<Z>>::new (both over the symbolic scalar)", "KhHomology::<FF2>::new, KhHomology::<FF<3>>::new at the class's residues", "KhHomology::into_bigraded / KhComplexBigraded::homology",
             "yui::Ratio arithmetic (generic over the symbolic integer)"]
    }
    fn inputs(&self) -> Vec<InputSpec> {
        if self.reduced { vec![InputSpec::boxed("h", self.bound)] } else { vec![InputSpec::boxed("h", self.bound), InputSpec::boxed("t", self.bound)] }
    }
    fn body<I: VInt>(&self, xs: &[I])
    where
        for<'x> &'x I: VIntOps<I>,
    {
        let (h, t) = if self.reduced { (xs[0].clone(), I::zero()) } else { (xs[0].clone(), xs[1].clone()) };
        let l = link_of(&self.pd, self.mirror);
        let sz = lib_signature(&l, &h, &t, self.reduced);
        // ---- Q
        let (hq, tq) = (Ratio::from(h.clone()), Ratio::from(t.clone()));
        let sq = lib_signature::<Ratio<I>>(&l, &hq, &tq, self.reduced);
        let fz: BTreeMap<isize, usize> = sz.iter().filter(|s| s.1 > 0).map(|s| (s.0, s.1)).collect();
        let fq: BTreeMap<isize, usize> = sq.iter().filter(|s| s.1 > 0).map(|s| (s.0, s.1)).collect();
        I::oblige(&format!("rank over Q = free rank over Z: {:?} vs {:?}", fq, fz), VF::of_bool(fq == fz));
        I::oblige("no torsion over a field", VF::of_bool(sq.iter().all(|s| s.2.is_empty())));
        // ---- F_p at the residues of this class (h mod 6, t mod 6 are pinned: sound narrowing)
        let six = I::lit(6);
        let res = |x: &I| -> i64 {
            let r = (x % &six).to_i64().unwrap();
            r.rem_euclid(6)
        };
        let (rh, rt) = (res(&h), res(&t));
        let tors_div = |i: isize, p: i64| -> usize {
            sz.iter().filter(|s| s.0 == i).map(|s| s.2.iter().filter(|a| (*a % &I::lit(p)).is_zero()).count()).sum()
        };
        let rank_z = |i: isize| -> usize { sz.iter().filter(|s| s.0 == i).map(|s| s.1).sum() };
        {
            let (h2, t2) = (FF2::from(rh), FF2::from(rt));
            let s2 = lib_signature::<FF2>(&l, &h2, &t2, self.reduced);
            let mut degs: std::collections::BTreeSet<isize> = sz.iter().map(|s| s.0).collect();
            degs.extend(s2.iter().map(|s| s.0));
            degs.extend(sz.iter().map(|s| s.0 - 1));
            for i in degs {
                let want = rank_z(i) + tors_div(i, 2) + tors_div(i + 1, 2);
                let got: usize = s2.iter().filter(|s| s.0 == i).map(|s| s.1).sum();
                I::oblige(&format!("dim over F2 in degree {} = rank + 2-torsion(i) + 2-torsion(i+1): got {}, want {}", i, got, want), VF::of_bool(got == want));
            }
        }
        {
            let (h3, t3) = (FF::<3>::new(rh as i32), FF::<3>::new(rt as i32));
            let s3 = lib_signature::<FF<3>>(&l, &h3, &t3, self.reduced);
            let mut degs: std::collections::BTreeSet<isize> = sz.iter().map(|s| s.0).collect();
            degs.extend(s3.iter().map(|s| s.0));
            degs.extend(sz.iter().map(|s| s.0 - 1));
            for i in degs {
                let want = rank_z(i) + tors_div(i, 3) + tors_div(i + 1, 3);
                let got: usize = s3.iter().filter(|s| s.0 == i).map(|s| s.1).sum();
                I::oblige(&format!("dim over F3 in degree {} = rank + 3-torsion(i) + 3-torsion(i+1): got {}, want {}", i, got, want), VF::of_bool(got == want));
            }
        }
        // ---- on the class h = t = 0: the two routes to a bigraded table, and the F2 reduced/unreduced relation
        if h.is_zero() && t.is_zero() {
            let a = bigraded_table(&KhHomology::new(&l, &h, &t, self.reduced).into_bigraded());
            let b = bigraded_table(&KhComplexBigraded::new(&l, &h, &t, self.reduced).homology());
            I::oblige(&format!("bigraded routes agree over Z: {:?} vs {:?}", a, b), VF::of_bool(a == b));
            let aq = bigraded_table::<Ratio<I>>(&KhHomology::<Ratio<I>>::new(&l, &hq, &tq, self.reduced).into_bigraded());
            let fa: BTreeMap<(isize, isize), usize> = a.iter().filter(|(_, v)| v.0 > 0).map(|(k, v)| (*k, v.0)).collect();
            let fq2: BTreeMap<(isize, isize), usize> = aq.iter().filter(|(_, v)| v.0 > 0).map(|(k, v)| (*k, v.0)).collect();
            I::oblige(&format!("bigraded Q ranks = bigraded Z free ranks: {:?} vs {:?}", fq2, fa), VF::of_bool(fa == fq2));
            if !self.reduced && l.is_knot() {
                let z2 = FF2::from(0);
                let u = bigraded_table::<FF2>(&KhHomology::<FF2>::new(&l, &z2, &z2, false).into_bigraded());
                let r = bigraded_table::<FF2>(&KhHomology::<FF2>::new(&l, &z2, &z2, true).into_bigraded());
                let mut want: BTreeMap<(isize, isize), usize> = BTreeMap::new();
                for (k, v) in &r {
                    *want.entry((k.0, k.1 - 1)).or_default() += v.0;
                    *want.entry((k.0, k.1 + 1)).or_default() += v.0;
                }
                let got: BTreeMap<(isize, isize), usize> = u.iter().map(|(k, v)| (*k, v.0)).collect();
                I::oblige(&format!("F2: unreduced(i,j) = red(i,j-1) + red(i,j+1): {:?} vs {:?}", got, want), VF::of_bool(got == want));
            }
        }
    }
}

pub fn configs_c03(tier: crate::registry::Tier, _seed: u64) -> Vec<crate::registry::Entry> {
    use crate::registry::{entry, Tier};
    let th = tier == Tier::Thorough;
    let mut v = Vec::new();
    for (name, pd) in khref::catalogue() {
        if pd.len() > 3 && !th {
            continue;
        }
        for mirror in [false, true] {
            v.push(entry(Coefficients { name, pd: pd.clone(), mirror, reduced: false, bound: if th { 3 } else { 2 } }, 100, if th { 1800.0 } else { 240.0 }));
            if name != "hopf" {
                v.push(entry(Coefficients { name, pd: pd.clone(), mirror, reduced: true, bound: if th { 6 } else { 4 } }, 100, if th { 1800.0 } else { 240.0 }));
            }
        }
    }
    // 6-8 crossing knots: (h,t) in [-1,1]^2 (thorough [-2,2]^2)
    for (name, pd) in khref::coeff_catalogue() {
        for mirror in [false, true] {
            v.push(entry(Coefficients { name, pd: pd.clone(), mirror, reduced: false, bound: if th { 2 } else { 1 } }, 60, if th { 1800.0 } else { 200.0 }));
        }
        v.push(entry(Coefficients { name, pd: pd.clone(), mirror: false, reduced: true, bound: 2 }, 60, if th { 1800.0 } else { 200.0 }));
    }
    v
}

// =================================================================================== C06

#[derive(Clone, Copy, Debug, PartialEq)]
pub enum LeeMode {
    /// canonical cycles: h_deg 0, d z = 0, non-torsion class for h != 0 (t = 0, h symbolic)
    CanonCycles,
    /// ss_invariant(l, c, reduced) with symbolic prime c: diagram pairs, reduced = unreduced, mirror negation
    SsPairs,
    /// ss(K-) <= ss(K+) <= ss(K-) + 2 for every positive crossing switched
    SsCrossingChange,
    /// (h,t) = (1,0) over Z and (0,1) over Q: free of total rank 2^components
    LeeRank,
}

pub struct Lee {
    pub name: String,
    pub a: Pd,
    pub b: Pd,
    pub mode: LeeMode,
    pub reduced: bool,
    pub bound: i64,
}

/// PD code with crossing k switched (over <-> under), keeping the orientation of all strands
fn switch_crossing(pd: &Pd, k: usize) -> Option<(Pd, bool)> {
    let dirs = edge_directions(pd)?;
    let x = pd[k];
    // which over slot is incoming?
    let in1 = dirs[&x[1]].1 == (k, 1) || (x[1] == x[3] && false);
    let positive = !in1; // incoming at slot 3 <=> positive
    // new under strand = old over strand: it enters at slot 1 (negative) or 3 (positive); rotate so that it sits at slot 0
    let nx = if in1 { [x[1], x[2], x[3], x[0]] } else { [x[3], x[0], x[1], x[2]] };
    let mut out = pd.clone();
    out[k] = nx;
    Some((out, positive))
}

impl Harness for Lee {
    fn id(&self) -> String {
        format!("lee/{:?}/{}{}/B{}", self.mode, self.name, if self.reduced { "/reduced" } else { "" }, self.bound)
    }
    fn functions(&self) -> Vec<&'static str> {
        vec!["yui_kh::kh::ss_invariant / compute_div", "KhComplex::canon_cycles (builder: make_canon_cycles)", "KhHomology::{new,truncated}", "Summand::vectorize_euc", "misc::div_vec", "Link::{writhe,seifert_circles,is_knot}"]
    }
    fn inputs(&self) -> Vec<InputSpec> {
        match self.mode {
            LeeMode::CanonCycles => vec![InputSpec::boxed("h", self.bound)],
            LeeMode::SsPairs | LeeMode::SsCrossingChange => vec![InputSpec::range("c", 2, self.bound)],
            LeeMode::LeeRank => vec![InputSpec::range("u", 1, 1)],
        }
    }
    fn extra_smt(&self) -> Vec<String> {
        match self.mode {
            LeeMode::SsPairs | LeeMode::SsCrossingChange => vec!["(or (= c 2) (= c 3) (= c 5) (= c 7))".into()],
            _ => vec![],
        }
    }
    fn extra_ok(&self, xs: &[BigInt]) -> bool {
        match self.mode {
            LeeMode::SsPairs | LeeMode::SsCrossingChange => [2, 3, 5, 7].iter().any(|p| xs[0] == BigInt::from(*p)),
            _ => true,
        }
    }
    fn body<I: VInt>(&self, xs: &[I])
    where
        for<'x> &'x I: VIntOps<I>,
    {
        let la = link_of(&self.a, false);
        match self.mode {
            LeeMode::CanonCycles => {
                let h = xs[0].clone();
                let t = I::zero();
                let c = KhComplex::<I>::new(&la, &h, &t, self.reduced);
                let zs = c.canon_cycles().clone();
                I::oblige("number of canonical cycles", VF::of_bool(zs.len() == if self.reduced { 1 } else { 2 }));
                for (k, z) in zs.iter().enumerate() {
                    I::oblige(&format!("canonical cycle {} has h-degree 0", k), VF::of_bool(z.gens().all(|x| x.h_deg() == 0)));
                    let dz = c.d(0, z);
                    for (_, a) in dz.iter() {
                        I::oblige(&format!("d(canonical cycle {}) = 0", k), VF::zero(a.clone()));
                    }
                }
                // non-torsion classes when h != 0: coordinates on the free part of Kh[0] are not all zero
                if !h.is_zero() {
                    let kh = c.homology();
                    let r = kh[0].rank();
                    for (k, z) in zs.iter().enumerate() {
                        let v = kh[0].vectorize_euc(z).subvec(0..r).to_dense();
                        I::oblige(&format!("class of canonical cycle {} is non-torsion", k), VF::Or(v.into_iter().map(VF::nonzero).collect()));
                    }
                }
            }
            LeeMode::LeeRank => {
                let comps = la.components().len();
                let (one, zero) = (xs[0].clone(), I::zero());
                let s = lib_signature(&la, &one, &zero, false);
                I::oblige("(h,t)=(1,0) over Z: torsion free", VF::of_bool(s.iter().all(|x| x.2.is_empty())));
                I::oblige("(h,t)=(1,0) over Z: total rank 2^components", VF::of_bool(s.iter().map(|x| x.1).sum::<usize>() == 1 << comps));
                let (q1, q0) = (Ratio::from(one.clone()), Ratio::from(zero.clone()));
                let s = lib_signature::<Ratio<I>>(&la, &q0, &q1, false);
                I::oblige("(h,t)=(0,1) over Q: total rank 2^components", VF::of_bool(s.iter().map(|x| x.1).sum::<usize>() == 1 << comps));
            }
            LeeMode::SsPairs => {
                let c = xs[0].clone();
                let lb = link_of(&self.b, false);
                let sa = ss_invariant(&la, &c, false);
                let sa_r = ss_invariant(&la, &c, true);
                let sb = ss_invariant(&lb, &c, false);
                let sm = ss_invariant(&la.mirror(), &c, false);
                I::oblige(&format!("ss equal on both diagrams ({} vs {})", sa, sb), VF::of_bool(sa == sb));
                I::oblige(&format!("ss reduced = unreduced ({} vs {})", sa_r, sa), VF::of_bool(sa == sa_r));
                I::oblige(&format!("ss(mirror) = -ss ({} vs {})", sm, sa), VF::of_bool(sm == -sa));
            }
            LeeMode::SsCrossingChange => {
                let c = xs[0].clone();
                let s0 = ss_invariant(&la, &c, self.reduced);
                for k in 0..self.a.len() {
                    let Some((sw, positive)) = switch_crossing(&self.a, k) else {
                        I::oblige("crossing switch possible", VF::False);
                        continue;
                    };
                    let s1 = ss_invariant(&link_of(&sw, false), &c, self.reduced);
                    // K+ has the positive crossing
                    let (plus, minus) = if positive { (s0, s1) } else { (s1, s0) };
                    I::oblige(&format!("ss(K-) <= ss(K+) <= ss(K-)+2 at crossing {} (K+ {}, K- {})", k, plus, minus), VF::of_bool(minus <= plus && plus <= minus + 2));
                }
            }
        }
    }
}

pub fn configs_c06(tier: crate::registry::Tier, seed: u64) -> Vec<crate::registry::Entry> {
    use crate::registry::{entry, Tier};
    let th = tier == Tier::Thorough;
    let mut v = Vec::new();
    let knots: Vec<(&str, Pd)> = khref::catalogue().into_iter().filter(|(n, p)| *n != "hopf" && (th || p.len() <= 3)).collect();
    for (name, pd) in &knots {
        for reduced in [false, true] {
            v.push(entry(Lee { name: name.to_string(), a: pd.clone(), b: vec![], mode: LeeMode::CanonCycles, reduced, bound: if th { 5 } else { 3 } }, 100, 240.0));
        }
    }
    for (name, pd) in khref::catalogue() {
        if pd.len() > 3 && !th {
            continue;
        }
        v.push(entry(Lee { name: name.to_string(), a: pd.clone(), b: vec![], mode: LeeMode::LeeRank, reduced: false, bound: 1 }, 10, 120.0));
    }
    // 8-9 crossing knots (and mirrors, through the PD-level mirror = library mirror): cycles and ss for c in {2,3,5,7}
    for (name, pd) in khref::cycle_catalogue() {
        let _ = th;
        for reduced in [false, true] {
            v.push(entry(Lee { name: name.to_string(), a: pd.clone(), b: vec![], mode: LeeMode::CanonCycles, reduced, bound: 2 }, 30, 150.0));
        }
        v.push(entry(Lee { name: name.to_string(), a: pd.clone(), b: vec![], mode: LeeMode::LeeRank, reduced: false, bound: 1 }, 10, 120.0));
        v.push(entry(Lee { name: format!("{}~renumbered", name), a: pd.clone(), b: renumber(&pd, seed as usize), mode: LeeMode::SsPairs, reduced: false, bound: 7 }, 20, 200.0));
    }
    for (name, a, b, knot) in move_pairs(th, seed) {
        if !knot || (!th && a.len().max(b.len()) > 4) {
            continue;
        }
        v.push(entry(Lee { name, a, b, mode: LeeMode::SsPairs, reduced: false, bound: 7 }, 20, if th { 1800.0 } else { 240.0 }));
    }
    for (name, pd) in &knots {
        for reduced in [false, true] {
            v.push(entry(Lee { name: name.to_string(), a: pd.clone(), b: vec![], mode: LeeMode::SsCrossingChange, reduced, bound: 7 }, 20, if th { 1800.0 } else { 240.0 }));
        }
    }
    v
}

// =================================================================================== C18 (auxiliary, link level)

/// Link-level facts of C18 compared against an independent reference (orientation walk, union-find on the strand relation,
/// circle counts of resolutions, permutation cycles of a braid). There is no scalar to symbolise here: the obligations are
/// concrete; they ride on the same runner (one class per diagram) and are reported as an auxiliary, NOT solver-decided part.
pub struct LinkFacts {
    pub name: String,
    pub pd: Pd,
    pub braid: Option<(usize, Vec<i32>)>,
}

impl Harness for LinkFacts {
    fn id(&self) -> String {
        format!("linkfacts/{}", self.name)
    }
    fn functions(&self) -> Vec<&'static str> {
        vec!["Link::{from_pd_code,components,crossing_signs,signed_crossing_nums,writhe,mirror,resolved_by,crossing_num,is_knot,seifert_circles}", "Braid::closure", "Path::{edges,is_circle}"]
    }
    fn inputs(&self) -> Vec<InputSpec> {
        vec![InputSpec::range("unit", 1, 1)]
    }
    fn body<I: VInt>(&self, _xs: &[I])
    where
        for<'x> &'x I: VIntOps<I>,
    {
        // a braid's diagram is built here, inside the run, so that a panic of `Braid::closure` is judged like any other failure
        let built: Pd = match &self.braid {
            Some((s, w)) => braid_pd(*s, w),
            None => self.pd.clone(),
        };
        let pd = &built;
        let n = pd.len();
        let l = Link::from_pd_code(pd.clone());
        // ---- components: orbits of the strand-through-crossing relation, partition of the edge set
        let mut labels: Vec<usize> = pd.iter().flat_map(|x| x.iter().cloned()).collect();
        labels.sort();
        labels.dedup();
        let idx: BTreeMap<usize, usize> = labels.iter().enumerate().map(|(i, &e)| (e, i)).collect();
        let mut parent: Vec<usize> = (0..labels.len()).collect();
        fn find(p: &mut Vec<usize>, x: usize) -> usize {
            let mut x = x;
            while p[x] != x {
                p[x] = p[p[x]];
                x = p[x];
            }
            x
        }
        for x in pd {
            for (a, b) in [(0, 2), (1, 3)] {
                let (ra, rb) = (find(&mut parent, idx[&x[a]]), find(&mut parent, idx[&x[b]]));
                if ra != rb {
                    parent[ra] = rb;
                }
            }
        }
        let mut classes: BTreeMap<usize, std::collections::BTreeSet<usize>> = BTreeMap::new();
        for (i, &e) in labels.iter().enumerate() {
            let r = find(&mut parent, i);
            classes.entry(r).or_default().insert(e);
        }
        let want: std::collections::BTreeSet<std::collections::BTreeSet<usize>> = classes.into_values().collect();
        let comps = l.components();
        let got: std::collections::BTreeSet<std::collections::BTreeSet<usize>> = comps.iter().map(|c| c.edges().iter().cloned().collect()).collect();
        I::oblige(&format!("components are the orbits of the strand relation ({} vs {})", got.len(), want.len()), VF::of_bool(got == want && comps.len() == want.len()));
        I::oblige("components partition the edge set", VF::of_bool(comps.iter().map(|c| c.edges().len()).sum::<usize>() == labels.len()));
        I::oblige("is_knot", VF::of_bool(l.is_knot() == (want.len() == 1)));
        I::oblige("crossing_num", VF::of_bool(l.crossing_num() == n));
        // ---- signs: those of an orientation consistent with the under-strand directions
        let (p, m) = l.signed_crossing_nums();
        let free = khref::signed_crossings_choice(pd, false, 0).map(|x| x.2);
        match free {
            None => I::oblige("reference orientation exists", VF::False),
            Some(free) => {
                let ok = (0..(1usize << free)).any(|ch| khref::signed_crossings_choice(pd, false, ch).map(|x| (x.0, x.1)) == Some((p, m)));
                I::oblige(&format!("signed crossing numbers ({},{}) are those of an admissible orientation", p, m), VF::of_bool(ok));
            }
        }
        I::oblige("writhe = n+ - n-", VF::of_bool(l.writhe() == p as i32 - m as i32));
        let (mp, mm) = l.mirror().signed_crossing_nums();
        I::oblige("mirror negates the signs", VF::of_bool((mp, mm) == (m, p) && l.mirror().writhe() == -l.writhe()));
        // renumbering / reordering do not change the signed crossing numbers (for diagrams whose orientation is determined)
        if free == Some(0) {
            for (what, q) in [("renumbered", renumber(pd, 3)), ("reordered", reorder(pd, 1)), ("rotated", (0..n).map(|i| pd[(i + n / 2 + 1) % n.max(1)]).collect::<Pd>())] {
                let l2 = Link::from_pd_code(q);
                I::oblige(&format!("{}: signed crossing numbers unchanged", what), VF::of_bool(l2.signed_crossing_nums() == (p, m)));
                I::oblige(&format!("{}: number of components unchanged", what), VF::of_bool(l2.components().len() == want.len()));
            }
        }
        // ---- every resolution is a crossingless diagram with the right number of circles
        if n <= 7 {
            for bits in 0..(1usize << n) {
                let state: Vec<bool> = (0..n).map(|i| (bits >> i) & 1 == 1).collect();
                let s = yui_link::State::from_iter(state.iter().map(|&b| b as u8));
                let r = l.resolved_by(&s);
                let c = r.components();
                I::oblige(&format!("resolution {:?}: circle count", bits), VF::of_bool(c.len() == khref::circles(pd, &state, false).len() && c.iter().all(|x| x.is_circle())));
                I::oblige(&format!("resolution {:?}: no crossing left", bits), VF::of_bool(r.crossing_num() == 0));
            }
            // multi-step: resolve one crossing first, then the rest by a state of length n-1
            if n >= 2 && n <= 4 {
                for k in 0..n {
                    for first in [false, true] {
                        let part = l.resolved_at(k, yui::bitseq::Bit::from(first));
                        for bits in 0..(1usize << (n - 1)) {
                            let rest: Vec<bool> = (0..n - 1).map(|i| (bits >> i) & 1 == 1).collect();
                            let mut full: Vec<bool> = rest.clone();
                            full.insert(k, first);
                            let r = part.resolved_by(&yui_link::State::from_iter(rest.iter().map(|&b| b as u8)));
                            I::oblige(&format!("partial resolution at {} then {:?}: crossingless with the right circle count", k, bits),
                                VF::of_bool(r.crossing_num() == 0 && r.components().len() == khref::circles(pd, &full, false).len()));
                        }
                    }
                }
            }
            // Seifert circles = circles of the orientation-preserving resolution
            if free == Some(0) {
                I::oblige("seifert circles: count of the oriented resolution", VF::of_bool(l.seifert_circles().len() == l.resolved_by(&l.ori_pres_state()).components().len()));
            }
        }
        // ---- braid closure
        if let Some((strands, word)) = &self.braid {
            let mut perm: Vec<usize> = (0..*strands).collect();
            for g in word {
                let i = g.unsigned_abs() as usize - 1;
                perm.swap(i, i + 1);
            }
            let mut seen = vec![false; *strands];
            let mut cycles = 0;
            for s in 0..*strands {
                if !seen[s] {
                    cycles += 1;
                    let mut t = s;
                    while !seen[t] {
                        seen[t] = true;
                        t = perm[t];
                    }
                }
            }
            I::oblige(&format!("closure: components = cycles of the braid permutation ({})", cycles), VF::of_bool(want.len() == cycles && comps.len() == cycles));
            I::oblige("closure: crossings = letters", VF::of_bool(n == word.len()));
            I::oblige("closure: writhe = exponent sum", VF::of_bool(l.writhe() == word.iter().map(|g| g.signum()).sum::<i32>()));
        }
    }
}

pub fn configs_c18(tier: crate::registry::Tier, seed: u64) -> Vec<crate::registry::Entry> {
    use crate::registry::{entry, Tier};
    let th = tier == Tier::Thorough;
    let mut v = Vec::new();
    for (name, pd) in khref::catalogue().into_iter().chain(khref::over_only_catalogue()).chain(khref::multi_over_only_catalogue()).chain(khref::big_catalogue()).chain(if th { khref::cycle_catalogue() } else { vec![] }) {
        v.push(entry(LinkFacts { name: name.to_string(), pd: pd.clone(), braid: None }, 3, 60.0));
        v.push(entry(LinkFacts { name: format!("{}~renumbered", name), pd: renumber(&pd, seed as usize), braid: None }, 3, 60.0));
    }
    v.push(entry(LinkFacts { name: "trefoil~R1".into(), pd: r1(&trefoil(), 1 + seed as usize % 6, seed as usize), braid: None }, 3, 60.0));
    let words: Vec<(usize, Vec<i32>)> = vec![
        (2, vec![1, 1, 1]), (2, vec![-1, -1]), (3, vec![1, -2, 1, -2]), (3, vec![1, 1, 1, -2]), (3, vec![1, 2, 1, 2]), (4, vec![1, 2, 3, 3, 3]), (4, vec![1, 3, 2, -1]), (4, vec![1, -2, 3, -2, 1]), (3, vec![2, 1]), (3, vec![2, 1, 2, 1]), (4, vec![3, 2, 1]),
        (5, vec![1, 2, 3, 4, 4]), (8, vec![1, 2, 3, 4, 5, 6, 7, 7, 7]),
    ];
    for (s, w) in words {
        v.push(entry(LinkFacts { name: format!("braid{}{:?}", s, w), pd: vec![], braid: Some((s, w.clone())) }, 3, 60.0));
    }
    // conjugated words (first letter inverse to the last), also nested
    for (s, w) in [(3usize, vec![1, 2, -1]), (3, vec![1, 2, 2, 2, -1]), (3, vec![-2, 1, 1, 2, -1, 2]), (4, vec![3, 1, 2, 2, -1, -3])] {
        v.push(entry(LinkFacts { name: format!("braid{}{:?}", s, w), pd: vec![], braid: Some((s, w.clone())) }, 3, 60.0));
    }
    v.push(entry(BraidFacts { strands: 2, maxlen: if th { 12 } else { 10 } }, 3, 60.0));
    v.push(entry(BraidFacts { strands: 3, maxlen: if th { 8 } else { 7 } }, 3, 120.0));
    v.push(entry(BraidFacts { strands: 4, maxlen: if th { 6 } else { 5 } }, 3, 120.0));
    v.push(entry(BraidFacts { strands: 5, maxlen: if th { 6 } else { 5 } }, 3, 120.0));
    v
}

/// Every braid word up to a length on a few strands (all of them, not a sample): the closure has one crossing per
/// letter, its components are the cycles of the permutation, the crossing signs are the letter signs. Concrete
/// obligations (no scalar to symbolise), auxiliary like `LinkFacts`.
pub struct BraidFacts {
    pub strands: usize,
    pub maxlen: usize,
}

impl Harness for BraidFacts {
    fn id(&self) -> String {
        format!("linkfacts/all braid words/s{}/len<={}", self.strands, self.maxlen)
    }
    fn functions(&self) -> Vec<&'static str> {
        vec!["Braid::{new,closure}", "Link::{components,signed_crossing_nums,writhe,crossing_num}"]
    }
    fn inputs(&self) -> Vec<InputSpec> {
        vec![InputSpec::range("unit", 1, 1)]
    }
    fn body<I: VInt>(&self, _xs: &[I])
    where
        for<'x> &'x I: VIntOps<I>,
    {
        let s = self.strands;
        let gens: Vec<i32> = (1..s as i32).flat_map(|g| [g, -g]).collect();
        for len in (s - 1)..=self.maxlen {
            let mut idx = vec![0usize; len];
            loop {
                let word: Vec<i32> = idx.iter().map(|&i| gens[i]).collect();
                // every strand must be touched (closure documents a panic on free loops)
                if (1..s as i32).all(|g| word.iter().any(|w| w.abs() == g)) {
                    let pd = braid_pd(s, &word);
                    let l = Link::from_pd_code(pd.clone());
                    let mut perm: Vec<usize> = (0..s).collect();
                    for g in &word {
                        let i = g.unsigned_abs() as usize - 1;
                        perm.swap(i, i + 1);
                    }
                    let mut seen = vec![false; s];
                    let mut cycles = 0;
                    for a in 0..s {
                        if !seen[a] {
                            cycles += 1;
                            let mut t = a;
                            while !seen[t] {
                                seen[t] = true;
                                t = perm[t];
                            }
                        }
                    }
                    let pos = word.iter().filter(|g| **g > 0).count();
                    let ok = pd.len() == word.len()
                        && l.crossing_num() == word.len()
                        && pd_components(&pd) == cycles
                        && l.components().len() == cycles
                        && l.signed_crossing_nums() == (pos, word.len() - pos)
                        && l.writhe() == word.iter().map(|g| g.signum()).sum::<i32>();
                    if !ok {
                        I::oblige(&format!("closure of {:?} on {} strands: crossings = letters, components = permutation cycles, signs = letter signs", word, s), VF::False);
                    }
                }
                // next word
                let mut k = 0;
                while k < len {
                    idx[k] += 1;
                    if idx[k] < gens.len() {
                        break;
                    }
                    idx[k] = 0;
                    k += 1;
                }
                if k == len {
                    break;
                }
            }
        }
        I::oblige("all braid words enumerated", VF::True);
    }
}

/// kernel obligation of C06: the divisibility of a coordinate vector by c is the minimum c-adic valuation of its non-zero entries
pub struct DivVec {
    pub n: usize,
    pub b: i64,
}

impl Harness for DivVec {
    fn id(&self) -> String {
        format!("lee/DivVec/n{}/B{}", self.n, self.b)
    }
    fn functions(&self) -> Vec<&'static str> {
        vec!["yui_kh::misc::{div_vec, div}"]
    }
    fn inputs(&self) -> Vec<InputSpec> {
        let mut v: Vec<InputSpec> = (0..self.n).map(|i| InputSpec::boxed(&format!("v{}", i), self.b)).collect();
        v.push(InputSpec::range("c", 2, 7));
        v
    }
    fn extra_smt(&self) -> Vec<String> {
        vec!["(or (= c 2) (= c 3) (= c 5) (= c 7))".into()]
    }
    fn extra_ok(&self, xs: &[BigInt]) -> bool {
        [2, 3, 5, 7].iter().any(|p| xs[self.n] == BigInt::from(*p))
    }
    fn body<I: VInt>(&self, xs: &[I])
    where
        for<'x> &'x I: VIntOps<I>,
    {
        let c = &xs[self.n];
        let v = yui_matrix::sparse::SpVec::from(xs[..self.n].to_vec());
        let got = yui_kh::misc::div_vec(&v, c);
        // reference: valuations by repeated exact division (the harness's own loop, executed symbolically as well)
        let mut best: Option<i32> = None;
        for x in &xs[..self.n] {
            if x.is_zero() {
                continue;
            }
            let mut a = x.clone();
            let mut k = 0;
            while (&a % c).is_zero() {
                a = &a / c;
                k += 1;
            }
            best = Some(best.map_or(k, |b: i32| b.min(k)));
        }
        I::oblige(&format!("div_vec = minimal valuation (got {:?}, want {:?})", got, best), VF::of_bool(got == best));
    }
}

pub fn configs_c06_kernel() -> Vec<crate::registry::Entry> {
    use crate::registry::entry;
    vec![entry(DivVec { n: 2, b: 30 }, 3000, 150.0), entry(DivVec { n: 1, b: 350 }, 1500, 90.0), entry(DivVec { n: 3, b: 9 }, 3000, 150.0)]
}
