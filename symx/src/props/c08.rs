//! C08 — chain reduction is a homotopy equivalence with correct transfer maps   [single worker schedule]
use crate::ctx::Rel;
use crate::explore::{Harness, InputSpec};
use crate::props::c09::RingSel;
use crate::util::*;
use crate::vint::{VInt, VIntOps, VF};
use num_traits::{One, Zero};
use yui::{EucRing, EucRingOps, Ring, RingOps};
use yui_homology::utils::ChainReducer;
use yui_matrix::sparse::pivot::{PivotCondition, PivotType};
use yui_matrix::sparse::{SpMat, SpVec};
use yui_matrix::MatTrait;

pub struct Reduce {
    pub ring: RingSel,
    pub dims: Vec<usize>, // ranks of C_0 .. C_L ; d_i : C_i -> C_{i+1}
    pub b: i64,
    pub mode: u8, // 0: reduce (shallow + deep); 1..=8: reduce_at_spec(middle, type, cond) once
    pub track: bool,
}

impl Reduce {
    fn spec(&self) -> Option<(PivotType, PivotCondition)> {
        if self.mode == 0 {
            return None;
        }
        let k = self.mode - 1;
        let t = if k % 2 == 0 { PivotType::Rows } else { PivotType::Cols };
        let c = match k / 2 {
            0 => PivotCondition::One,
            1 => PivotCondition::AnyUnit,
            2 => PivotCondition::Weight(1.0),
            _ => PivotCondition::Weight(2.0),
        };
        Some((t, c))
    }
    fn n_entries(&self) -> usize {
        self.dims.windows(2).map(|w| w[0] * w[1]).sum()
    }
    fn arity(&self) -> usize {
        if self.ring == RingSel::ZH { 2 } else { 1 }
    }
    fn mats<I, R>(&self, xs: &[I]) -> Vec<Grid<R>>
    where
        I: VInt,
        for<'x> &'x I: VIntOps<I>,
        R: VRing<I>,
        for<'x> &'x R: RingOps<R>,
    {
        let k = self.arity();
        let mut at = 0;
        let mut out = Vec::new();
        for w in self.dims.windows(2) {
            let (c, r) = (w[0], w[1]);
            out.push(build_grid::<I, R>(r, c, &xs[at..at + r * c * k]));
            at += r * c * k;
        }
        out
    }
}

fn homology_sig<I: VInt>(ds: &[Grid<I>], dims: &[usize]) -> Vec<(usize, Vec<I>)>
where
    for<'x> &'x I: VIntOps<I>,
{
    // per degree i: (free rank, non-unit invariant factors of the incoming differential d_{i-1})
    let l = dims.len();
    let rk: Vec<usize> = (0..l.saturating_sub(1)).map(|i| rank_by_minors(&ds[i], dims[i + 1], dims[i])).collect();
    (0..l)
        .map(|i| {
            let out_rk = if i + 1 < l { rk[i] } else { 0 };
            let in_rk = if i >= 1 { rk[i - 1] } else { 0 };
            let tors: Vec<I> = if i >= 1 {
                invariant_factors_by_minors(&ds[i - 1], dims[i], dims[i - 1]).into_iter().filter(|e| !e.is_unit()).collect()
            } else {
                vec![]
            };
            (dims[i] - out_rk - in_rk, tors)
        })
        .collect()
}

impl Harness for Reduce {
    fn id(&self) -> String {
        format!("reduce/{:?}/dims{:?}/B{}/mode{}{}", self.ring, self.dims, self.b, self.mode, if self.track { "/tracked" } else { "" })
    }
    fn functions(&self) -> Vec<&'static str> {
        vec!["ChainReducer::{new,set_matrix,add_vec,reduce_all,reduce_at,reduce_at_spec,preferred_strategy,update_trans,update_mats,update_vecs,matrix,trans,vecs}",
             "chain_reducer::{pivots,reduce_mat_rows,reduce_mat_cols}", "pivot::find_pivots", "schur::Schur::from_partial_triangular", "Trans::{append_perm,merge,forward_mat,backward_mat}"]
    }
    fn inputs(&self) -> Vec<InputSpec> {
        let ar = self.arity();
        let mut v: Vec<InputSpec> = (0..self.n_entries() * ar).map(|k| InputSpec::boxed(&format!("d{}", k), self.b)).collect();
        if self.track {
            for (i, &n) in self.dims.iter().enumerate() {
                for k in 0..n * ar {
                    v.push(InputSpec::boxed(&format!("v{}_{}", i, k), self.b));
                }
            }
        }
        v
    }
    fn pre<I: VInt>(&self, xs: &[I])
    where
        for<'x> &'x I: VIntOps<I>,
    {
        match self.ring {
            RingSel::ZH => self.pre_zh::<I>(xs),
            _ => self.pre_z::<I>(xs),
        }
    }
    fn body<I: VInt>(&self, xs: &[I])
    where
        for<'x> &'x I: VIntOps<I>,
    {
        match self.ring {
            RingSel::Q => self.run::<I, yui::Ratio<I>>(xs),
            RingSel::ZH => self.run::<I, yui::poly::Poly<'H', I>>(xs),
            _ => self.run::<I, I>(xs),
        }
    }
}

impl Reduce {
    /// d∘d = 0 on integer entries (also used for Q: entries are integers embedded in Q)
    fn pre_z<I: VInt>(&self, xs: &[I])
    where
        for<'x> &'x I: VIntOps<I>,
    {
        let ds = self.mats::<I, I>(xs);
        for i in 0..ds.len().saturating_sub(1) {
            let p = grid_mul(&ds[i + 1], &ds[i], self.dims[i + 1], self.dims[i]);
            for row in &p {
                for e in row {
                    I::assume(VF::zero(e.clone()));
                }
            }
        }
    }
    /// d∘d = 0 over Z[H], branch-free on coefficients: (a + bH)(c + dH) = ac + (ad + bc)H + bd H^2
    fn pre_zh<I: VInt>(&self, xs: &[I])
    where
        for<'x> &'x I: VIntOps<I>,
    {
        let mut at = 0;
        let mut ms: Vec<Vec<Vec<(I, I)>>> = Vec::new();
        for w in self.dims.windows(2) {
            let (c, r) = (w[0], w[1]);
            ms.push((0..r).map(|i| (0..c).map(|j| (xs[at + 2 * (i * c + j)].clone(), xs[at + 2 * (i * c + j) + 1].clone())).collect()).collect());
            at += 2 * r * c;
        }
        for i in 0..ms.len().saturating_sub(1) {
            let (a, b) = (&ms[i + 1], &ms[i]);
            for r in 0..a.len() {
                for c in 0..self.dims[i] {
                    let (mut c0, mut c1, mut c2) = (I::zero(), I::zero(), I::zero());
                    for k in 0..self.dims[i + 1] {
                        let ((p, q), (u, v)) = (&a[r][k], &b[k][c]);
                        c0 = &c0 + &(p * u);
                        c1 = &c1 + &(&(p * v) + &(q * u));
                        c2 = &c2 + &(q * v);
                    }
                    I::assume(VF::And(vec![VF::zero(c0), VF::zero(c1), VF::zero(c2)]));
                }
            }
        }
    }
    fn run<I, R>(&self, xs: &[I])
    where
        I: VInt,
        for<'x> &'x I: VIntOps<I>,
        R: VRing<I> + nalgebra_scalar::Sc,
        for<'x> &'x R: RingOps<R>,
    {
        let dims = &self.dims;
        let l = dims.len();
        let ds = self.mats::<I, R>(xs);
        let mut red: ChainReducer<isize, R> = ChainReducer::new(0..l as isize, 1);
        for i in 0..=l {
            let mat: SpMat<R> = if i + 1 < l {
                grid_to_sp(&ds[i], dims[i + 1], dims[i])
            } else if i + 1 == l {
                SpMat::zero((0, dims[i]))
            } else {
                SpMat::zero((0, 0))
            };
            red.set_matrix(i as isize, mat, true);
        }
        let mut tracked: Vec<Vec<R>> = Vec::new();
        if self.track {
            let ar = self.arity();
            let mut at = self.n_entries() * ar;
            for (i, &n) in dims.iter().enumerate() {
                let v: Vec<R> = xs[at..at + n * ar].chunks(ar).map(|c| R::build(c)).collect();
                at += n * ar;
                red.add_vec(i as isize, SpVec::from(v.clone()));
                tracked.push(v);
            }
        }
        match self.spec() {
            None => {
                red.reduce_all(false);
                red.reduce_all(true);
            }
            Some((t, c)) => {
                let mid = ((l - 1) / 2) as isize;
                let _ = red.reduce_at_spec(mid.max(0).min(l as isize - 2).max(0), t, c);
            }
        }
        // ---- read back
        let nd: Vec<usize> = (0..l).map(|i| red.matrix(i as isize).map(|m| m.ncols()).unwrap_or(usize::MAX)).collect();
        let mut ok_shapes = nd.iter().all(|&x| x != usize::MAX);
        let mut rd: Vec<Grid<R>> = Vec::new();
        for i in 0..l.saturating_sub(1) {
            let mm = red.matrix(i as isize).unwrap();
            if mm.shape() != (nd[i + 1], nd[i]) {
                ok_shapes = false;
            }
            rd.push(sp_to_grid(mm));
        }
        I::oblige("reduced differentials have consistent shapes", VF::of_bool(ok_shapes));
        if !ok_shapes {
            return;
        }
        // d' d' = 0
        for i in 0..rd.len().saturating_sub(1) {
            let p = grid_mul(&rd[i + 1], &rd[i], nd[i + 1], nd[i]);
            for (a, row) in p.iter().enumerate() {
                for (b, e) in row.iter().enumerate() {
                    oblige_zero::<I, R>(&format!("d'_{} d'_{} [{},{}] = 0", i + 1, i, a, b), e);
                }
            }
        }
        // transfer maps
        let mut fs: Vec<Grid<R>> = Vec::new();
        let mut bs: Vec<Grid<R>> = Vec::new();
        for i in 0..l {
            let t = red.trans(i as isize).expect("trans requested");
            I::oblige(&format!("trans {} dims", i), VF::of_bool(t.src_dim() == dims[i] && t.tgt_dim() == nd[i]));
            if !(t.src_dim() == dims[i] && t.tgt_dim() == nd[i]) {
                return;
            }
            fs.push(sp_to_grid(&t.forward_mat()));
            bs.push(sp_to_grid(&t.backward_mat()));
        }
        for i in 0..l {
            if nd[i] > 0 {
                oblige_grid_eq::<I, R>(&format!("f_{0} b_{0} = I", i), &grid_mul(&fs[i], &bs[i], dims[i], nd[i]), &grid_id::<R>(nd[i]));
            }
        }
        for i in 0..l.saturating_sub(1) {
            // f_{i+1} d_i = d'_i f_i      (nd[i+1] x dims[i])
            if nd[i + 1] > 0 && dims[i] > 0 {
                oblige_grid_eq::<I, R>(&format!("f_{} d_{} = d'_{} f_{}", i + 1, i, i, i),
                    &grid_mul(&fs[i + 1], &ds[i], dims[i + 1], dims[i]), &grid_mul(&rd[i], &fs[i], nd[i], dims[i]));
            }
            // d_i b_i = b_{i+1} d'_i      (dims[i+1] x nd[i])
            if dims[i + 1] > 0 && nd[i] > 0 {
                oblige_grid_eq::<I, R>(&format!("d_{} b_{} = b_{} d'_{}", i, i, i + 1, i),
                    &grid_mul(&ds[i], &bs[i], dims[i], nd[i]), &grid_mul(&bs[i + 1], &rd[i], nd[i + 1], nd[i]));
            }
        }
        // tracked vectors follow the forward map
        if self.track {
            for i in 0..l {
                let vs = red.vecs(i as isize).expect("tracked vector");
                let w = vs[0].to_dense();
                I::oblige(&format!("tracked vector {} dim", i), VF::of_bool(w.len() == nd[i]));
                if w.len() == nd[i] {
                    for k in 0..nd[i] {
                        let want = (0..dims[i]).fold(R::zero(), |s, j| &s + &(&fs[i][k][j] * &tracked[i][j]));
                        oblige_zero::<I, R>(&format!("tracked vector {}[{}] = (f v)[{}]", i, k, k), &(&w[k] - &want));
                    }
                }
            }
        }
        // same homology.  Z: ranks and invariant factors from minors; other rings: ranks from minors only
        if self.ring != RingSel::Z {
            if self.ring == RingSel::Q {
                for i in 0..l {
                    let rk = |d: &Vec<Grid<R>>, dm: &[usize], j: usize| if j + 1 < dm.len() { rank_by_minors(&d[j], dm[j + 1], dm[j]) } else { 0 };
                    let h0 = dims[i] - rk(&ds, dims, i) - if i >= 1 { rk(&ds, dims, i - 1) } else { 0 };
                    let h1 = nd[i] - rk(&rd, &nd, i) - if i >= 1 { rk(&rd, &nd, i - 1) } else { 0 };
                    I::oblige(&format!("H_{} dimension preserved", i), VF::of_bool(h0 == h1));
                }
            }
            return;
        }
        // (R = I here; the reference works on the integer grids)
        let to_i = |g: &Vec<Grid<R>>| -> Vec<Grid<I>> { g.iter().map(|m| m.iter().map(|r| r.iter().map(|e| e.zero_comps().into_iter().next().unwrap_or_else(I::zero)).collect()).collect()).collect() };
        let h0 = homology_sig(&to_i(&ds), dims);
        let h1 = homology_sig(&to_i(&rd), &nd);
        for i in 0..l {
            I::oblige(&format!("H_{} free rank preserved", i), VF::of_bool(h0[i].0 == h1[i].0));
            I::oblige(&format!("H_{} number of torsion summands preserved", i), VF::of_bool(h0[i].1.len() == h1[i].1.len()));
            if h0[i].1.len() == h1[i].1.len() {
                for (k, (a, b)) in h0[i].1.iter().zip(&h1[i].1).enumerate() {
                    I::oblige(&format!("H_{} torsion factor {} preserved up to units", i, k), VF::Or(vec![VF::zero(a - b), VF::zero(a + b)]));
                }
            }
        }
    }
}

pub fn configs(tier: crate::registry::Tier, _seed: u64) -> Vec<crate::registry::Entry> {
    use crate::registry::{entry, Tier};
    let mut v = Vec::new();
    for dims in [vec![1, 1], vec![2, 2], vec![1, 2, 1], vec![2, 2, 1], vec![1, 2, 2], vec![2, 1, 2], vec![0, 2, 1], vec![2, 0, 1], vec![1, 1, 1, 1]] {
        v.push(entry(Reduce { ring: RingSel::Z, dims: dims.clone(), b: 2, mode: 0, track: false }, 5000, 120.0));
    }
    v.push(entry(Reduce { ring: RingSel::Z, dims: vec![1, 2, 1], b: 2, mode: 0, track: true }, 1500, 120.0));
    v.push(entry(Reduce { ring: RingSel::Z, dims: vec![2, 2], b: 2, mode: 0, track: true }, 1500, 120.0));
    for mode in 1..=8u8 {
        v.push(entry(Reduce { ring: RingSel::Z, dims: vec![1, 2, 2], b: 2, mode, track: mode % 3 == 0 }, 4000, 120.0));
        v.push(entry(Reduce { ring: RingSel::Z, dims: vec![2, 2, 1], b: 2, mode, track: false }, 1500, 120.0));
    }
    // Q: units other than +-1 (AnyUnit pivots with u^2 != 1); Z[H]: non-PID, units +-1, default c_weight
    for ring in [RingSel::Q, RingSel::ZH] {
        let b = if ring == RingSel::ZH { 1 } else { 2 };
        v.push(entry(Reduce { ring, dims: vec![1, 2, 1], b, mode: 0, track: true }, 1500, 120.0));
        v.push(entry(Reduce { ring, dims: vec![2, 2], b, mode: 0, track: false }, 5000, 120.0));
        v.push(entry(Reduce { ring, dims: vec![1, 3, 1], b: 2, mode: 0, track: false }, 5000, 120.0));
        for mode in [2u8, 3, 4, 6, 7, 8] {
            v.push(entry(Reduce { ring, dims: vec![1, 2, 2], b, mode, track: false }, 800, 90.0));
        }
    }
    if tier == Tier::Thorough {
        for dims in [vec![2, 3, 2], vec![2, 2, 2], vec![1, 2, 2, 1], vec![2, 3, 1], vec![1, 3, 2], vec![3, 3]] {
            v.push(entry(Reduce { ring: RingSel::Z, dims: dims.clone(), b: 2, mode: 0, track: true }, 50000, 1800.0));
        }
        for mode in 1..=8u8 {
            v.push(entry(Reduce { ring: RingSel::Z, dims: vec![2, 3, 2], b: 1, mode, track: true }, 50000, 1200.0));
        }
    }
    v
}
