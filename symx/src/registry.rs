//! Object-safe wrapper around `Harness` and the per-property configuration tables.

use crate::explore::{native_verdict, Budget, ConfigResult, Explorer, Harness};
use num_bigint::BigInt;

pub trait DynHarness {
    fn id(&self) -> String;
    fn input_names(&self) -> Vec<String>;
    fn explore(&self, ex: &mut Explorer, budget: &Budget, seed: u64) -> ConfigResult;
    fn native(&self, xs: &[BigInt]) -> Option<String>;
}

impl<H: Harness> DynHarness for H {
    fn id(&self) -> String {
        Harness::id(self)
    }
    fn input_names(&self) -> Vec<String> {
        self.inputs().into_iter().map(|s| s.name).collect()
    }
    fn explore(&self, ex: &mut Explorer, budget: &Budget, seed: u64) -> ConfigResult {
        ex.explore(self, budget, seed)
    }
    fn native(&self, xs: &[BigInt]) -> Option<String> {
        native_verdict(self, xs)
    }
}

pub struct Entry {
    pub h: Box<dyn DynHarness>,
    pub budget: Budget,
}

pub fn entry<H: Harness + 'static>(h: H, max_classes: usize, max_secs: f64) -> Entry {
    Entry { h: Box::new(h), budget: Budget { starts: 3, sample_only: false, max_classes, max_secs, query_ms: 3000, steps: 3_000_000 } }
}

/// solver-sampled configuration (for shapes whose queries are beyond the solver): `starts` seed-dependent inputs chosen by
/// the solver inside Bounds ∧ Pre, each executed once and judged on its concrete obligations only
pub fn sampled<H: Harness + 'static>(h: H, starts: u64, max_secs: f64) -> Entry {
    Entry { h: Box::new(h), budget: Budget { starts, sample_only: true, max_classes: starts as usize + 2, max_secs, query_ms: 3000, steps: 3_000_000 } }
}

#[derive(Clone, Copy, PartialEq, Eq, Debug)]
pub enum Tier {
    Quick,
    Thorough,
}

/// all configurations of a property for a tier (thorough ⊇ quick)
pub fn configs(prop: &str, tier: Tier, seed: u64) -> Vec<Entry> {
    match prop {
        "C01" => crate::props::c01::configs(tier, seed),
        "C02" => crate::props::c02::configs(tier, seed),
        "C03" => crate::props::c02::configs_c03(tier, seed),
        "C05" => crate::props::c01::configs_c05a(tier, seed),
        "C06" => {
            let mut v = crate::props::c02::configs_c06(tier, seed);
            v.extend(crate::props::c02::configs_c06_kernel());
            v
        }
        "C07" => crate::props::c07::configs(tier, seed),
        "C08" => crate::props::c08::configs(tier, seed),
        "C09" => crate::props::c09::configs(tier, seed),
        "C11" => crate::props::c11::configs(tier, seed),
        "C12" => crate::props::c12::configs(tier, seed),
        "C13" => crate::props::c13::configs(tier, seed),
        "C14" => crate::props::c14::configs_c14(tier, seed),
        "C15" => crate::props::c14::configs_c15(tier, seed),
        "C16" => crate::props::c14::configs_c16(tier, seed),
        "C18" => crate::props::c02::configs_c18(tier, seed),
        "C10" => crate::props::c10::configs(tier, seed),
        _ => vec![],
    }
}
