//! Global recording context of one concolic run: variables (inputs + auxiliaries with their shadow
//! values), path condition, division definitions, obligations.

use crate::poly::{Poly, Var, P};
use num_bigint::BigInt;
use num_traits::{Signed, Zero};
use std::collections::{BTreeSet, HashMap, HashSet};
use std::sync::{Arc, Mutex};

#[derive(Clone, Copy, Debug, PartialEq, Eq, Hash, PartialOrd, Ord)]
pub enum Rel {
    Eq,
    Ne,
    Gt,
    Ge,
    Lt,
    Le,
}

impl Rel {
    pub fn holds(self, v: &BigInt) -> bool {
        match self {
            Rel::Eq => v.is_zero(),
            Rel::Ne => !v.is_zero(),
            Rel::Gt => v.is_positive(),
            Rel::Ge => !v.is_negative(),
            Rel::Lt => v.is_negative(),
            Rel::Le => !v.is_positive(),
        }
    }
    pub fn negate(self) -> Rel {
        match self {
            Rel::Eq => Rel::Ne,
            Rel::Ne => Rel::Eq,
            Rel::Gt => Rel::Le,
            Rel::Ge => Rel::Lt,
            Rel::Lt => Rel::Ge,
            Rel::Le => Rel::Gt,
        }
    }
    pub fn flip(self) -> Rel {
        // relation satisfied by -p when self is satisfied by p
        match self {
            Rel::Gt => Rel::Lt,
            Rel::Ge => Rel::Le,
            Rel::Lt => Rel::Gt,
            Rel::Le => Rel::Ge,
            r => r,
        }
    }
    pub fn smt(self) -> &'static str {
        match self {
            Rel::Eq => "=",
            Rel::Ne => "distinct",
            Rel::Gt => ">",
            Rel::Ge => ">=",
            Rel::Lt => "<",
            Rel::Le => "<=",
        }
    }
}

/// `p REL 0`, p kept sign-normalised so that syntactically equal conditions coincide
#[derive(Clone, Debug, PartialEq, Eq, Hash, PartialOrd, Ord)]
pub struct Atom {
    pub p: P,
    pub rel: Rel,
}

impl Atom {
    pub fn new(p: &Poly, rel: Rel) -> Atom {
        let (q, flipped) = p.sign_normal();
        Atom { p: Arc::new(q), rel: if flipped { rel.flip() } else { rel } }
    }
    pub fn negated(&self) -> Atom {
        Atom { p: self.p.clone(), rel: self.rel.negate() }
    }
    pub fn as_const(&self) -> Option<bool> {
        self.p.as_const().map(|c| self.rel.holds(&c))
    }
    pub fn smt(&self, name: &dyn Fn(Var) -> String) -> String {
        format!("({} {} 0)", self.rel.smt(), self.p.smt(name))
    }
    pub fn pretty(&self, name: &dyn Fn(Var) -> String) -> String {
        format!("{} {} 0", self.p.pretty(name), match self.rel {
            Rel::Eq => "==",
            Rel::Ne => "!=",
            Rel::Gt => ">",
            Rel::Ge => ">=",
            Rel::Lt => "<",
            Rel::Le => "<=",
        })
    }
}

#[derive(Clone, Debug, PartialEq, Eq, Hash)]
pub enum Formula {
    True,
    False,
    Atom(Atom),
    And(Vec<Formula>),
    Or(Vec<Formula>),
    Not(Box<Formula>),
}

impl Formula {
    pub fn atom(p: &Poly, rel: Rel) -> Formula {
        let a = Atom::new(p, rel);
        match a.as_const() {
            Some(true) => Formula::True,
            Some(false) => Formula::False,
            None => Formula::Atom(a),
        }
    }
    pub fn and(fs: Vec<Formula>) -> Formula {
        let mut out = Vec::new();
        for f in fs {
            match f {
                Formula::True => {}
                Formula::False => return Formula::False,
                Formula::And(v) => out.extend(v),
                f => out.push(f),
            }
        }
        match out.len() {
            0 => Formula::True,
            1 => out.pop().unwrap(),
            _ => Formula::And(out),
        }
    }
    pub fn or(fs: Vec<Formula>) -> Formula {
        let mut out = Vec::new();
        for f in fs {
            match f {
                Formula::False => {}
                Formula::True => return Formula::True,
                Formula::Or(v) => out.extend(v),
                f => out.push(f),
            }
        }
        match out.len() {
            0 => Formula::False,
            1 => out.pop().unwrap(),
            _ => Formula::Or(out),
        }
    }
    pub fn not(f: Formula) -> Formula {
        match f {
            Formula::True => Formula::False,
            Formula::False => Formula::True,
            Formula::Atom(a) => Formula::Atom(a.negated()),
            Formula::Not(g) => *g,
            f => Formula::Not(Box::new(f)),
        }
    }
    pub fn smt(&self, name: &dyn Fn(Var) -> String) -> String {
        match self {
            Formula::True => "true".into(),
            Formula::False => "false".into(),
            Formula::Atom(a) => a.smt(name),
            Formula::And(v) => format!("(and {})", v.iter().map(|f| f.smt(name)).collect::<Vec<_>>().join(" ")),
            Formula::Or(v) => format!("(or {})", v.iter().map(|f| f.smt(name)).collect::<Vec<_>>().join(" ")),
            Formula::Not(f) => format!("(not {})", f.smt(name)),
        }
    }
    pub fn eval(&self, val: &dyn Fn(Var) -> BigInt) -> bool {
        match self {
            Formula::True => true,
            Formula::False => false,
            Formula::Atom(a) => a.rel.holds(&a.p.eval(val)),
            Formula::And(v) => v.iter().all(|f| f.eval(val)),
            Formula::Or(v) => v.iter().any(|f| f.eval(val)),
            Formula::Not(f) => !f.eval(val),
        }
    }
    pub fn vars(&self, out: &mut BTreeSet<Var>) {
        match self {
            Formula::Atom(a) => a.p.vars(out),
            Formula::And(v) | Formula::Or(v) => v.iter().for_each(|f| f.vars(out)),
            Formula::Not(f) => f.vars(out),
            _ => {}
        }
    }
    pub fn pretty(&self, name: &dyn Fn(Var) -> String) -> String {
        match self {
            Formula::True => "true".into(),
            Formula::False => "false".into(),
            Formula::Atom(a) => a.pretty(name),
            Formula::And(v) => format!("({})", v.iter().map(|f| f.pretty(name)).collect::<Vec<_>>().join(" && ")),
            Formula::Or(v) => format!("({})", v.iter().map(|f| f.pretty(name)).collect::<Vec<_>>().join(" || ")),
            Formula::Not(f) => format!("!{}", f.pretty(name)),
        }
    }
}

#[derive(Clone, Debug)]
pub struct VarInfo {
    pub name: String,
    pub is_input: bool,
    pub value: BigInt,
    /// static bound |v| <= bound (inputs: from the box; auxiliaries: interval arithmetic), if any
    pub bound: Option<BigInt>,
}

/// q = trunc(a / b)  (b != 0);  q = 0 when b == 0 (total, so that "exists aux" == "forall aux")
#[derive(Clone, Debug)]
pub struct Def {
    pub q: Var,
    pub a: P,
    pub b: P,
    pub qbound: Option<BigInt>,
}

impl Def {
    pub fn smt(&self, name: &dyn Fn(Var) -> String) -> String {
        let q = name(self.q);
        let a = self.a.smt(name);
        let b = self.b.smt(name);
        let r = self.a.sub(&Poly::var(self.q).mul(&self.b)).smt(name);
        let bnd = match &self.qbound {
            Some(k) => format!(" (<= (- {k}) {q}) (<= {q} {k})"),
            None => String::new(),
        };
        format!(
            "(ite (= {b} 0) (= {q} 0) (and{bnd} (< (abs {r}) (abs {b})) (or (= {r} 0) (and (> {r} 0) (> {a} 0)) (and (< {r} 0) (< {a} 0)))))"
        )
    }
    pub fn holds(&self, val: &dyn Fn(Var) -> BigInt) -> bool {
        let (a, b, q) = (self.a.eval(val), self.b.eval(val), val(self.q));
        if b.is_zero() {
            return q.is_zero();
        }
        let r = &a - &q * &b;
        r.abs() < b.abs() && (r.is_zero() || (r.is_positive() == a.is_positive()))
    }
}

pub const STEP_BUDGET_MSG: &str = "SYMX-STEP-BUDGET";
pub const TERM_BUDGET_MSG: &str = "SYMX-TERM-BUDGET";
pub const ENCODING_MSG: &str = "SYMX-ENCODING-MISMATCH";

pub struct Ctx {
    pub vars: Vec<VarInfo>,
    pub pc: Vec<Atom>,
    pc_set: HashSet<Atom>,
    pub defs: Vec<Def>,
    def_cache: HashMap<(P, P), Var>,
    pub obligations: Vec<(String, Formula)>,
    pub assumptions: Vec<Formula>,
    pub steps: u64,
    pub step_budget: u64,
    pub max_terms: usize,
    pub run_tag: String,
    pub recording: bool,
    pub concretizations: u64,
    pub notes: Vec<String>,
    /// variables pinned to a constant by an equality in the path condition (applied to every new term)
    pub pinned: HashMap<Var, BigInt>,
}

impl Ctx {
    pub fn new() -> Ctx {
        Ctx {
            vars: Vec::new(),
            pc: Vec::new(),
            pc_set: HashSet::new(),
            defs: Vec::new(),
            def_cache: HashMap::new(),
            obligations: Vec::new(),
            assumptions: Vec::new(),
            steps: 0,
            step_budget: 2_000_000,
            max_terms: 4000,
            run_tag: String::new(),
            recording: false,
            concretizations: 0,
            notes: Vec::new(),
            pinned: HashMap::new(),
        }
    }

    pub fn value_of(&self, v: Var) -> BigInt {
        self.vars[v as usize].value.clone()
    }

    pub fn name_of(&self, v: Var) -> String {
        self.vars[v as usize].name.clone()
    }

    /// record `p REL 0` with the outcome observed on the shadow value `shadow` (= value of p)
    pub fn branch(&mut self, p: &Poly, rel: Rel, shadow: &BigInt) -> bool {
        let outcome = rel.holds(shadow);
        if !self.recording || p.is_const() {
            return outcome;
        }
        let atom = Atom::new(p, if outcome { rel } else { rel.negate() });
        if self.pc_set.contains(&atom) {
            return outcome;
        }
        // built-in translator validation: the term, evaluated under the current model, must agree with the shadow
        let vars = &self.vars;
        let ev = p.eval(&|v| vars[v as usize].value.clone());
        if &ev != shadow {
            panic!("{}: term evaluates to {} but shadow is {}", ENCODING_MSG, ev, shadow);
        }
        if atom.rel == Rel::Eq {
            if let Some((v, k)) = atom.p.pins() {
                if self.vars[v as usize].value == k {
                    self.pinned.insert(v, k);
                }
            }
        }
        self.pc_set.insert(atom.clone());
        self.pc.push(atom);
        outcome
    }

    pub fn new_var(&mut self, name: String, is_input: bool, value: BigInt, bound: Option<BigInt>) -> Var {
        self.vars.push(VarInfo { name, is_input, value, bound });
        (self.vars.len() - 1) as Var
    }

    /// quotient variable for trunc(a / b); shared between `/` and `%` of the same operands
    pub fn div_var(&mut self, a: &P, b: &P, qval: BigInt) -> Var {
        if let Some(v) = self.def_cache.get(&(a.clone(), b.clone())) {
            return *v;
        }
        let name = format!("q{}_{}", self.run_tag, self.defs.len());
        let qbound = {
            let vars = &self.vars;
            a.abs_bound(&|v| vars[v as usize].bound.clone())
        };
        let q = self.new_var(name, false, qval, qbound.clone());
        self.defs.push(Def { q, a: a.clone(), b: b.clone(), qbound });
        self.def_cache.insert((a.clone(), b.clone()), q);
        q
    }

    pub fn tick(&mut self) {
        self.steps += 1;
        if self.recording && self.steps > self.step_budget {
            self.recording = false;
            panic!("{}", STEP_BUDGET_MSG);
        }
        // memory guard (a run that allocates without bound is stopped like one that exceeds the step budget)
        if self.recording && self.steps % 8192 == 0 {
            if let Ok(s) = std::fs::read_to_string("/proc/self/statm") {
                if let Some(rss_pages) = s.split_whitespace().nth(1).and_then(|x| x.parse::<u64>().ok()) {
                    if rss_pages * 4096 > 2_500_000_000 {
                        self.recording = false;
                        panic!("{}", STEP_BUDGET_MSG);
                    }
                }
            }
        }
    }
}

pub static CTX: std::sync::LazyLock<Mutex<Ctx>> = std::sync::LazyLock::new(|| Mutex::new(Ctx::new()));

pub fn with_ctx<T>(f: impl FnOnce(&mut Ctx) -> T) -> T {
    let mut g = match CTX.lock() {
        Ok(g) => g,
        Err(p) => p.into_inner(),
    };
    f(&mut g)
}

/// start a fresh recording run with the given input values; returns nothing (inputs are created by `input`)
pub fn begin_run(tag: &str, step_budget: u64) {
    with_ctx(|c| {
        *c = Ctx::new();
        c.run_tag = tag.to_string();
        c.step_budget = step_budget;
        c.recording = true;
    });
}

pub struct RunRecord {
    pub vars: Vec<VarInfo>,
    pub pc: Vec<Atom>,
    pub defs: Vec<Def>,
    pub obligations: Vec<(String, Formula)>,
    pub assumptions: Vec<Formula>,
    pub steps: u64,
    pub concretizations: u64,
    pub notes: Vec<String>,
}

pub fn end_run() -> RunRecord {
    with_ctx(|c| {
        c.recording = false;
        RunRecord {
            vars: std::mem::take(&mut c.vars),
            pc: std::mem::take(&mut c.pc),
            defs: std::mem::take(&mut c.defs),
            obligations: std::mem::take(&mut c.obligations),
            assumptions: std::mem::take(&mut c.assumptions),
            steps: c.steps,
            concretizations: c.concretizations,
            notes: std::mem::take(&mut c.notes),
        }
    })
}
