//! `VInt`: the integer type a harness is written against.  Two instantiations:
//!   * `SymInt`  — symbolic run: obligations/assumptions are recorded as formulas over terms;
//!   * `BigInt`  — native replay: the same harness body runs on the repo's real BigInt instantiation and
//!                 obligations are evaluated on the spot.

use crate::ctx::{with_ctx, Formula, Rel};
use crate::symint::SymInt;
use num_bigint::BigInt;
use std::sync::Mutex;
use yui::{IntOps, Integer};
use yui_matrix::dense::lll::{LLLRing, LLLRingOps};

pub trait VIntOps<T>: IntOps<T> + LLLRingOps<T> + for<'y> num_traits::Pow<&'y usize, Output = T> {}
impl VIntOps<SymInt> for SymInt {}
impl<'a> VIntOps<SymInt> for &'a SymInt {}
impl VIntOps<BigInt> for BigInt {}
impl<'a> VIntOps<BigInt> for &'a BigInt {}

/// formula over values of the harness's integer type
#[derive(Clone, Debug)]
pub enum VF<I> {
    True,
    False,
    Atom(I, Rel),
    And(Vec<VF<I>>),
    Or(Vec<VF<I>>),
}

impl<I> VF<I> {
    pub fn zero(x: I) -> VF<I> {
        VF::Atom(x, Rel::Eq)
    }
    pub fn nonzero(x: I) -> VF<I> {
        VF::Atom(x, Rel::Ne)
    }
    pub fn all(v: Vec<VF<I>>) -> VF<I> {
        VF::And(v)
    }
    pub fn any(v: Vec<VF<I>>) -> VF<I> {
        VF::Or(v)
    }
    pub fn of_bool(b: bool) -> VF<I> {
        if b {
            VF::True
        } else {
            VF::False
        }
    }
}

pub static NATIVE_FAILS: Mutex<Vec<String>> = Mutex::new(Vec::new());

pub trait VInt: Integer + LLLRing<Int = Self> + From<i64> + std::hash::Hash
where
    for<'x> &'x Self: VIntOps<Self>,
{
    const SYMBOLIC: bool;
    fn lit(n: i64) -> Self {
        Self::from(n)
    }
    fn shadow(&self) -> BigInt;
    /// the property requires `f`
    fn oblige(label: &str, f: VF<Self>);
    /// precondition on the inputs (only meaningful before the code under test runs)
    fn assume(f: VF<Self>);
    fn note(s: String) {
        let _ = s;
    }
}

fn to_formula(f: &VF<SymInt>) -> Formula {
    match f {
        VF::True => Formula::True,
        VF::False => Formula::False,
        VF::Atom(x, r) => Formula::atom(&x.t, *r),
        VF::And(v) => Formula::and(v.iter().map(to_formula).collect()),
        VF::Or(v) => Formula::or(v.iter().map(to_formula).collect()),
    }
}

impl VInt for SymInt {
    const SYMBOLIC: bool = true;
    fn shadow(&self) -> BigInt {
        self.c.clone()
    }
    fn oblige(label: &str, f: VF<SymInt>) {
        let g = to_formula(&f);
        with_ctx(|c| c.obligations.push((label.to_string(), g)));
    }
    fn assume(f: VF<SymInt>) {
        let g = to_formula(&f);
        if g != Formula::True {
            with_ctx(|c| c.assumptions.push(g));
        }
    }
    fn note(s: String) {
        with_ctx(|c| c.notes.push(s));
    }
}

fn eval_native(f: &VF<BigInt>) -> bool {
    match f {
        VF::True => true,
        VF::False => false,
        VF::Atom(x, r) => r.holds(x),
        VF::And(v) => v.iter().all(eval_native),
        VF::Or(v) => v.iter().any(eval_native),
    }
}

pub const NATIVE_PRE_FAIL: &str = "SYMX-NATIVE-PRECONDITION-FAILED";

impl VInt for BigInt {
    const SYMBOLIC: bool = false;
    fn shadow(&self) -> BigInt {
        self.clone()
    }
    fn oblige(label: &str, f: VF<BigInt>) {
        if !eval_native(&f) {
            NATIVE_FAILS.lock().unwrap().push(label.to_string());
        }
    }
    fn assume(f: VF<BigInt>) {
        if !eval_native(&f) {
            panic!("{}", NATIVE_PRE_FAIL);
        }
    }
}
