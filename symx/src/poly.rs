//! Canonical sparse multivariate polynomials over Z (BigInt coefficients).
//! This is the *term language* of the symbolic scalar: every SymInt carries one of these; ring
//! identities therefore normalise syntactically (x - x == 0, distributivity, ...) and never reach the solver.

use num_bigint::BigInt;
use num_traits::{One, Signed, Zero};
use std::collections::BTreeMap;
use std::sync::Arc;

pub type Var = u32;
/// sorted by variable, exponents >= 1
pub type Mono = Vec<(Var, u32)>;

#[derive(Clone, Debug, PartialEq, Eq, Hash, PartialOrd, Ord, Default)]
pub struct Poly {
    pub terms: BTreeMap<Mono, BigInt>,
}

pub type P = Arc<Poly>;

fn mono_mul(a: &Mono, b: &Mono) -> Mono {
    let mut out = Vec::with_capacity(a.len() + b.len());
    let (mut i, mut j) = (0, 0);
    while i < a.len() && j < b.len() {
        if a[i].0 == b[j].0 {
            out.push((a[i].0, a[i].1 + b[j].1));
            i += 1;
            j += 1;
        } else if a[i].0 < b[j].0 {
            out.push(a[i]);
            i += 1;
        } else {
            out.push(b[j]);
            j += 1;
        }
    }
    out.extend_from_slice(&a[i..]);
    out.extend_from_slice(&b[j..]);
    out
}

impl Poly {
    pub fn zero() -> Poly {
        Poly { terms: BTreeMap::new() }
    }
    pub fn constant(c: BigInt) -> Poly {
        let mut terms = BTreeMap::new();
        if !c.is_zero() {
            terms.insert(vec![], c);
        }
        Poly { terms }
    }
    pub fn var(v: Var) -> Poly {
        let mut terms = BTreeMap::new();
        terms.insert(vec![(v, 1)], BigInt::one());
        Poly { terms }
    }
    pub fn is_zero(&self) -> bool {
        self.terms.is_empty()
    }
    pub fn as_const(&self) -> Option<BigInt> {
        match self.terms.len() {
            0 => Some(BigInt::zero()),
            1 => self.terms.get(&vec![]).cloned(),
            _ => None,
        }
    }
    pub fn is_const(&self) -> bool {
        self.terms.is_empty() || (self.terms.len() == 1 && self.terms.contains_key(&vec![]))
    }
    pub fn nterms(&self) -> usize {
        self.terms.len()
    }
    pub fn add(&self, o: &Poly) -> Poly {
        let (big, small) = if self.terms.len() >= o.terms.len() { (self, o) } else { (o, self) };
        let mut t = big.terms.clone();
        for (m, c) in &small.terms {
            match t.get_mut(m) {
                Some(x) => {
                    *x += c;
                    if x.is_zero() {
                        t.remove(m);
                    }
                }
                None => {
                    t.insert(m.clone(), c.clone());
                }
            }
        }
        Poly { terms: t }
    }
    pub fn neg(&self) -> Poly {
        Poly { terms: self.terms.iter().map(|(m, c)| (m.clone(), -c)).collect() }
    }
    pub fn sub(&self, o: &Poly) -> Poly {
        let mut t = self.terms.clone();
        for (m, c) in &o.terms {
            match t.get_mut(m) {
                Some(x) => {
                    *x -= c;
                    if x.is_zero() {
                        t.remove(m);
                    }
                }
                None => {
                    t.insert(m.clone(), -c);
                }
            }
        }
        Poly { terms: t }
    }
    pub fn mul(&self, o: &Poly) -> Poly {
        let mut t: BTreeMap<Mono, BigInt> = BTreeMap::new();
        for (m1, c1) in &self.terms {
            for (m2, c2) in &o.terms {
                let m = mono_mul(m1, m2);
                let c = c1 * c2;
                match t.get_mut(&m) {
                    Some(x) => {
                        *x += c;
                    }
                    None => {
                        t.insert(m, c);
                    }
                }
            }
        }
        t.retain(|_, c| !c.is_zero());
        Poly { terms: t }
    }
    pub fn scale(&self, k: &BigInt) -> Poly {
        if k.is_zero() {
            return Poly::zero();
        }
        Poly { terms: self.terms.iter().map(|(m, c)| (m.clone(), c * k)).collect() }
    }
    pub fn eval(&self, val: &dyn Fn(Var) -> BigInt) -> BigInt {
        let mut s = BigInt::zero();
        for (m, c) in &self.terms {
            let mut t = c.clone();
            for (v, e) in m {
                let x = val(*v);
                for _ in 0..*e {
                    t *= &x;
                }
            }
            s += t;
        }
        s
    }
    /// substitute constants for some variables
    pub fn subst(&self, map: &std::collections::HashMap<Var, BigInt>) -> Poly {
        if !self.terms.keys().any(|m| m.iter().any(|(v, _)| map.contains_key(v))) {
            return self.clone();
        }
        let mut t: BTreeMap<Mono, BigInt> = BTreeMap::new();
        for (m, c) in &self.terms {
            let mut c = c.clone();
            let mut m2: Mono = Vec::with_capacity(m.len());
            for (v, e) in m {
                match map.get(v) {
                    Some(k) => {
                        for _ in 0..*e {
                            c *= k;
                        }
                    }
                    None => m2.push((*v, *e)),
                }
            }
            if c.is_zero() {
                continue;
            }
            match t.get_mut(&m2) {
                Some(x) => *x += c,
                None => {
                    t.insert(m2, c);
                }
            }
        }
        t.retain(|_, c| !c.is_zero());
        Poly { terms: t }
    }
    /// interval bound: max |p| when |v| <= bound(v); None if some variable is unbounded
    pub fn abs_bound(&self, bound: &dyn Fn(Var) -> Option<BigInt>) -> Option<BigInt> {
        let mut s = BigInt::zero();
        for (m, c) in &self.terms {
            let mut t = c.abs();
            for (v, e) in m {
                let b = bound(*v)?;
                for _ in 0..*e {
                    t *= &b;
                }
            }
            s += t;
        }
        Some(s)
    }
    /// if the polynomial is k*v + c0 with k | c0, returns (v, -c0/k): the value v must take for p = 0
    pub fn pins(&self) -> Option<(Var, BigInt)> {
        if self.terms.len() > 2 || self.terms.is_empty() {
            return None;
        }
        let mut k: Option<(Var, BigInt)> = None;
        let mut c0 = BigInt::zero();
        for (m, c) in &self.terms {
            if m.is_empty() {
                c0 = c.clone();
            } else if m.len() == 1 && m[0].1 == 1 && k.is_none() {
                k = Some((m[0].0, c.clone()));
            } else {
                return None;
            }
        }
        let (v, k) = k?;
        let neg = -c0;
        if (&neg % &k).is_zero() {
            Some((v, neg / k))
        } else {
            None
        }
    }
    pub fn vars(&self, out: &mut std::collections::BTreeSet<Var>) {
        for m in self.terms.keys() {
            for (v, _) in m {
                out.insert(*v);
            }
        }
    }
    pub fn degree(&self) -> u32 {
        self.terms.keys().map(|m| m.iter().map(|x| x.1).sum::<u32>()).max().unwrap_or(0)
    }
    /// sign-normalised copy (leading coefficient positive) and whether the sign was flipped
    pub fn sign_normal(&self) -> (Poly, bool) {
        match self.terms.iter().next_back() {
            Some((_, c)) if c.is_negative() => (self.neg(), true),
            _ => (self.clone(), false),
        }
    }
    /// SMT-LIB2 rendering over Int, variables named by `name`
    pub fn smt(&self, name: &dyn Fn(Var) -> String) -> String {
        fn num(c: &BigInt) -> String {
            if c.is_negative() {
                format!("(- {})", -c)
            } else {
                c.to_string()
            }
        }
        if self.terms.is_empty() {
            return "0".into();
        }
        let mut parts = Vec::new();
        for (m, c) in &self.terms {
            let mut f: Vec<String> = Vec::new();
            if !c.is_one() || m.is_empty() {
                f.push(num(c));
            }
            for (v, e) in m {
                for _ in 0..*e {
                    f.push(name(*v));
                }
            }
            parts.push(if f.len() == 1 { f.pop().unwrap() } else { format!("(* {})", f.join(" ")) });
        }
        if parts.len() == 1 {
            parts.pop().unwrap()
        } else {
            format!("(+ {})", parts.join(" "))
        }
    }
    pub fn pretty(&self, name: &dyn Fn(Var) -> String) -> String {
        if self.terms.is_empty() {
            return "0".into();
        }
        let mut s = String::new();
        for (i, (m, c)) in self.terms.iter().enumerate() {
            let neg = c.is_negative();
            let a = c.abs();
            if i > 0 {
                s.push_str(if neg { " - " } else { " + " });
            } else if neg {
                s.push('-');
            }
            let mut f: Vec<String> = Vec::new();
            if !a.is_one() || m.is_empty() {
                f.push(a.to_string());
            }
            for (v, e) in m {
                f.push(if *e == 1 { name(*v) } else { format!("{}^{}", name(*v), e) });
            }
            s.push_str(&f.join("*"));
        }
        s
    }
}
