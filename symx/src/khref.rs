//! Reference implementation of the Khovanov cube of resolutions, independent of yui-link / yui-kh.
//! Input: a PD code (list of [e0,e1,e2,e3], under-strand enters at e0 and leaves at e2; the other
//! edges counter-clockwise).  Frobenius algebra A = R[X]/(X^2 - hX - t), counit eps(1)=0, eps(X)=1.

use num_traits::{One, Zero};
use std::collections::BTreeMap;
use yui::{EucRing, EucRingOps, Ring, RingOps};

pub type Pd = Vec<[usize; 4]>;
pub type Grid<R> = Vec<Vec<R>>;

/// (n_plus, n_minus) from the orientation induced by the under-strands; None if some component never goes under
pub fn signed_crossings(pd: &Pd, mirror: bool) -> Option<(usize, usize)> {
    signed_crossings_choice(pd, mirror, 0).map(|x| (x.0, x.1))
}

/// as `signed_crossings`; components that never pass under have no orientation induced by the code: bit k of `choice`
/// selects the orientation of the k-th such component. Returns (n_plus, n_minus, number of free components).
pub fn signed_crossings_choice(pd: &Pd, mirror: bool, choice: usize) -> Option<(usize, usize, usize)> {
    let n = pd.len();
    // slots (c, j); incoming[c][j] = Some(true) if the strand enters the crossing through slot j
    let mut incoming: Vec<[Option<bool>; 4]> = vec![[None; 4]; n];
    // partner slot of each slot along its edge
    let mut by_edge: BTreeMap<usize, Vec<(usize, usize)>> = BTreeMap::new();
    for (c, x) in pd.iter().enumerate() {
        for j in 0..4 {
            by_edge.entry(x[j]).or_default().push((c, j));
        }
    }
    if by_edge.values().any(|v| v.len() != 2) {
        return None;
    }
    let partner = |c: usize, j: usize| -> (usize, usize) {
        let v = &by_edge[&pd[c][j]];
        if v[0] == (c, j) { v[1] } else { v[0] }
    };
    for c0 in 0..n {
        if incoming[c0][0].is_some() {
            continue;
        }
        // walk the component starting by entering c0 through slot 0
        let (mut c, mut j) = (c0, 0);
        loop {
            if incoming[c][j] == Some(true) {
                break;
            }
            if incoming[c][j] == Some(false) {
                return None; // inconsistent orientation
            }
            incoming[c][j] = Some(true);
            let out = (j + 2) % 4;
            if incoming[c][out] == Some(true) {
                return None;
            }
            incoming[c][out] = Some(false);
            let (c2, j2) = partner(c, out);
            c = c2;
            j = j2;
        }
    }
    // components never entered through an under-slot: orient them by choice
    let mut free = 0usize;
    for c0 in 0..n {
        for j0 in [1usize, 3] {
            if incoming[c0][j0].is_some() {
                continue;
            }
            let start = if (choice >> free) & 1 == 0 { j0 } else { (j0 + 2) % 4 };
            free += 1;
            let (mut c, mut j) = (c0, start);
            loop {
                if incoming[c][j] == Some(true) {
                    break;
                }
                if incoming[c][j] == Some(false) {
                    return None;
                }
                incoming[c][j] = Some(true);
                let out = (j + 2) % 4;
                if incoming[c][out] == Some(true) {
                    return None;
                }
                incoming[c][out] = Some(false);
                let (c2, j2) = partner(c, out);
                c = c2;
                j = j2;
            }
        }
    }
    let (mut p, mut m) = (0, 0);
    for c in 0..n {
        if incoming[c][0] != Some(true) {
            return None;
        }
        match (incoming[c][1], incoming[c][3]) {
            (Some(false), Some(true)) => p += 1,
            (Some(true), Some(false)) => m += 1,
            _ => return None,
        }
    }
    Some(if mirror { (m, p, free) } else { (p, m, free) })
}

/// circles of a resolution: list of circles, each a sorted list of edge labels
pub fn circles(pd: &Pd, state: &[bool], mirror: bool) -> Vec<Vec<usize>> {
    let mut labels: Vec<usize> = pd.iter().flat_map(|x| x.iter().cloned()).collect();
    labels.sort();
    labels.dedup();
    let idx: BTreeMap<usize, usize> = labels.iter().enumerate().map(|(i, &e)| (e, i)).collect();
    let mut parent: Vec<usize> = (0..labels.len()).collect();
    fn find(p: &mut Vec<usize>, x: usize) -> usize {
        let mut x = x;
        while p[x] != x {
            p[x] = p[p[x]];
            x = p[x];
        }
        x
    }
    for (c, x) in pd.iter().enumerate() {
        let pairs = if state[c] == mirror { [(0, 1), (2, 3)] } else { [(0, 3), (1, 2)] };
        for (a, b) in pairs {
            let (ra, rb) = (find(&mut parent, idx[&x[a]]), find(&mut parent, idx[&x[b]]));
            if ra != rb {
                parent[ra] = rb;
            }
        }
    }
    let mut groups: BTreeMap<usize, Vec<usize>> = BTreeMap::new();
    for (i, &e) in labels.iter().enumerate() {
        let r = find(&mut parent, i);
        groups.entry(r).or_default().push(e);
    }
    let mut out: Vec<Vec<usize>> = groups.into_values().collect();
    out.sort();
    out
}

#[derive(Clone, Debug, PartialEq, Eq, PartialOrd, Ord)]
pub struct RefGen {
    pub state: Vec<bool>,
    /// label per circle (circles in the canonical sorted order): true = X, false = 1
    pub label: Vec<bool>,
    pub h: isize,
    pub q: isize,
}

pub struct RefComplex<R> {
    pub h_min: isize,
    /// generators per homological degree h_min, h_min + 1, ...
    pub gens: Vec<Vec<RefGen>>,
    /// d[i] : gens[i] -> gens[i+1], matrix of shape gens[i+1].len() x gens[i].len()
    pub d: Vec<Grid<R>>,
}

/// the cube-of-resolutions complex. `reduced`: sub-complex in which the circle through the smallest edge label carries X
pub fn cube_complex<R>(pd: &Pd, mirror: bool, h: &R, t: &R, reduced: bool) -> Option<RefComplex<R>>
where
    R: Ring,
    for<'x> &'x R: RingOps<R>,
{
    cube_complex_choice(pd, mirror, h, t, reduced, 0)
}

pub fn cube_complex_choice<R>(pd: &Pd, mirror: bool, h: &R, t: &R, reduced: bool, choice: usize) -> Option<RefComplex<R>>
where
    R: Ring,
    for<'x> &'x R: RingOps<R>,
{
    let n = pd.len();
    let (np, nm, _) = signed_crossings_choice(pd, mirror, choice)?;
    let (np, nm) = (np as isize, nm as isize);
    let base_edge = pd.iter().flat_map(|x| x.iter().cloned()).min();
    let mut gens: Vec<Vec<RefGen>> = vec![vec![]; n + 1];
    let mut circ: BTreeMap<Vec<bool>, Vec<Vec<usize>>> = BTreeMap::new();
    for bits in 0..(1usize << n) {
        let state: Vec<bool> = (0..n).map(|i| (bits >> i) & 1 == 1).collect();
        let cs = circles(pd, &state, mirror);
        let w = state.iter().filter(|&&b| b).count();
        let k = cs.len();
        for lb in 0..(1usize << k) {
            let label: Vec<bool> = (0..k).map(|i| (lb >> i) & 1 == 1).collect();
            if reduced {
                let bi = cs.iter().position(|c| c.contains(&base_edge.unwrap())).unwrap();
                if !label[bi] {
                    continue;
                }
            }
            let ones = label.iter().filter(|&&x| !x).count() as isize;
            let xs = label.iter().filter(|&&x| x).count() as isize;
            let q = (ones - xs) + w as isize + np - 2 * nm + if reduced { 1 } else { 0 };
            gens[w].push(RefGen { state: state.clone(), label, h: w as isize - nm, q });
        }
        circ.insert(state, cs);
    }
    let mut d: Vec<Grid<R>> = Vec::new();
    for w in 0..n {
        let (src, tgt) = (&gens[w], &gens[w + 1]);
        let index: BTreeMap<(&Vec<bool>, &Vec<bool>), usize> = tgt.iter().enumerate().map(|(i, g)| ((&g.state, &g.label), i)).collect();
        let mut mat: Grid<R> = (0..tgt.len()).map(|_| (0..src.len()).map(|_| R::zero()).collect()).collect();
        for (j, g) in src.iter().enumerate() {
            for i in 0..n {
                if g.state[i] {
                    continue;
                }
                let mut s2 = g.state.clone();
                s2[i] = true;
                let sign_neg = g.state[..i].iter().filter(|&&b| b).count() % 2 == 1;
                let (c1, c2) = (&circ[&g.state], &circ[&s2]);
                // circles untouched by the flip are common to both; the others: 2 -> 1 (merge) or 1 -> 2 (split)
                let old: Vec<usize> = (0..c1.len()).filter(|&a| !c2.contains(&c1[a])).collect();
                let new: Vec<usize> = (0..c2.len()).filter(|&a| !c1.contains(&c2[a])).collect();
                let mut images: Vec<(Vec<bool>, R)> = Vec::new(); // (labels on `new` circles, coefficient)
                match (old.len(), new.len()) {
                    (2, 1) => {
                        let (x, y) = (g.label[old[0]], g.label[old[1]]);
                        match (x, y) {
                            (false, false) => images.push((vec![false], R::one())),
                            (true, false) | (false, true) => images.push((vec![true], R::one())),
                            (true, true) => {
                                images.push((vec![true], h.clone()));
                                images.push((vec![false], t.clone()));
                            }
                        }
                    }
                    (1, 2) => {
                        if !g.label[old[0]] {
                            images.push((vec![false, true], R::one()));
                            images.push((vec![true, false], R::one()));
                            images.push((vec![false, false], -h));
                        } else {
                            images.push((vec![true, true], R::one()));
                            images.push((vec![false, false], t.clone()));
                        }
                    }
                    _ => return None, // not a valid planar diagram
                }
                for (nl, coef) in images {
                    let mut label2: Vec<bool> = vec![false; c2.len()];
                    for (a, c) in c2.iter().enumerate() {
                        if let Some(pos) = new.iter().position(|&b| b == a) {
                            label2[a] = nl[pos];
                        } else {
                            let b = c1.iter().position(|cc| cc == c).unwrap();
                            label2[a] = g.label[b];
                        }
                    }
                    match index.get(&(&s2, &label2)) {
                        Some(&row) => {
                            let c = if sign_neg { -coef } else { coef };
                            mat[row][j] += c;
                        }
                        None => {
                            // leaves the reduced sub-complex: only legal if the coefficient vanishes (t = 0)
                            if !coef.is_zero() {
                                return None;
                            }
                        }
                    }
                }
            }
        }
        d.push(mat);
    }
    Some(RefComplex { h_min: -nm, gens, d })
}

/// Smith normal form (diagonal only): non-zero diagonal entries d1 | d2 | ..., normalised.
/// Pivot = a non-zero entry of minimal `size` in the remaining block (units first).  `size` may look at concrete
/// shadow values: which non-zero entry is used as pivot does not affect the validity of the result, only its cost;
/// every zero test / division that the result depends on is an ordinary (recorded) scalar operation.
pub fn smith_diagonal<R>(a: &Grid<R>, rows: usize, cols: usize, size: &dyn Fn(&R) -> num_bigint::BigInt) -> Vec<R>
where
    R: EucRing,
    for<'x> &'x R: EucRingOps<R>,
{
    let mut m: Grid<R> = a.clone();
    let mut diag: Vec<R> = Vec::new();
    let mut k = 0;
    while k < rows && k < cols {
        // non-zero entry of minimal size in the remaining block
        let mut piv: Option<(usize, usize, num_bigint::BigInt)> = None;
        for i in k..rows {
            for j in k..cols {
                if !m[i][j].is_zero() {
                    let sz = size(&m[i][j]);
                    if piv.as_ref().map(|p| sz < p.2).unwrap_or(true) {
                        piv = Some((i, j, sz));
                    }
                }
            }
        }
        let Some((pi, pj, _)) = piv else { break };
        m.swap(k, pi);
        for row in m.iter_mut() {
            row.swap(k, pj);
        }
        // reduce column k and row k modulo the pivot; if something non-zero remains, start over with a smaller pivot
        let mut clean = true;
        for i in k + 1..rows {
            if m[i][k].is_zero() {
                continue;
            }
            let q = &m[i][k] / &m[k][k];
            for j in k..cols {
                if m[k][j].is_zero() {
                    continue;
                }
                let s = &q * &m[k][j];
                m[i][j] -= s;
            }
            if !m[i][k].is_zero() {
                clean = false;
            }
        }
        for j in k + 1..cols {
            if m[k][j].is_zero() {
                continue;
            }
            let q = &m[k][j] / &m[k][k];
            for i in k..rows {
                if m[i][k].is_zero() {
                    continue;
                }
                let s = &q * &m[i][k];
                m[i][j] -= s;
            }
            if !m[k][j].is_zero() {
                clean = false;
            }
        }
        if !clean {
            continue;
        }
        // row k and column k are clear; enforce divisibility of the remaining block (skipped for a unit pivot)
        if !m[k][k].is_unit() {
            let mut bad = None;
            'g: for i in k + 1..rows {
                for j in k + 1..cols {
                    if !m[i][j].is_zero() && !(&m[i][j] % &m[k][k]).is_zero() {
                        bad = Some(i);
                        break 'g;
                    }
                }
            }
            if let Some(i) = bad {
                for j in k..cols {
                    let s = m[i][j].clone();
                    m[k][j] += s;
                }
                continue;
            }
        }
        diag.push(m[k][k].normalized());
        k += 1;
    }
    diag
}

/// per homological degree: (h-degree, free rank, non-unit invariant factors of the incoming differential)
pub fn homology_signature<R>(c: &RefComplex<R>, size: &dyn Fn(&R) -> num_bigint::BigInt) -> Vec<(isize, usize, Vec<R>)>
where
    R: EucRing,
    for<'x> &'x R: EucRingOps<R>,
{
    let l = c.gens.len();
    let diags: Vec<Vec<R>> = (0..l.saturating_sub(1)).map(|i| smith_diagonal(&c.d[i], c.gens[i + 1].len(), c.gens[i].len(), size)).collect();
    (0..l)
        .map(|i| {
            let out_rk = if i + 1 < l { diags[i].len() } else { 0 };
            let in_rk = if i >= 1 { diags[i - 1].len() } else { 0 };
            let tors: Vec<R> = if i >= 1 { diags[i - 1].iter().filter(|e| !e.is_unit()).cloned().collect() } else { vec![] };
            (c.h_min + i as isize, c.gens[i].len() - out_rk - in_rk, tors)
        })
        .collect()
}

/// catalogue of diagrams (PD codes; the mirror image is requested by a flag, not by another code).
/// Every component goes under at least once, so the PD code determines the orientation.
pub fn catalogue() -> Vec<(&'static str, Pd)> {
    vec![
        ("kinkA", vec![[1, 2, 2, 1]]),
        ("kinkB", vec![[1, 1, 2, 2]]),
        ("two-kinks", vec![[1, 2, 2, 3], [3, 1, 4, 4]]),
        ("hopf", vec![[4, 1, 3, 2], [2, 3, 1, 4]]),
        ("trefoil", vec![[1, 4, 2, 5], [3, 6, 4, 1], [5, 2, 6, 3]]),
        ("figure8", vec![[4, 2, 5, 1], [8, 6, 1, 5], [6, 3, 7, 4], [2, 7, 3, 8]]),
        // the trefoil with one extra kink (Reidemeister I applied to edge 1)
        ("trefoil+kink", vec![[1, 4, 2, 5], [3, 6, 4, 7], [5, 2, 6, 3], [7, 8, 8, 1]]),
        // the same trefoil code with its crossings listed in another order (first crossing without the smallest label)
        ("trefoil-rot2", vec![[5, 2, 6, 3], [1, 4, 2, 5], [3, 6, 4, 1]]),
        ("figure8-rot2", vec![[6, 3, 7, 4], [2, 7, 3, 8], [4, 2, 5, 1], [8, 6, 1, 5]]),
    ]
}

/// 7-8 crossing knots for the coefficient-consistency checks (no cube reference is built for these)
pub fn coeff_catalogue() -> Vec<(&'static str, Pd)> {
    let mut v = Vec::new();
    for name in ["6_1", "6_3", "7_4", "7_6", "8_5", "8_18", "8_20"] {
        let path = format!("/repo/yui-link/resources/links/{}.json", name);
        if let Ok(txt) = std::fs::read_to_string(&path) {
            if let Ok(val) = serde_json::from_str::<Vec<[usize; 4]>>(&txt) {
                v.push((name, val));
            }
        }
    }
    v
}

/// 8-9 crossing knots used for the canonical-cycle checks (no cube reference is built for these)
pub fn cycle_catalogue() -> Vec<(&'static str, Pd)> {
    let mut v = Vec::new();
    for name in ["8_19", "8_20", "8_21", "9_42"] {
        let path = format!("/repo/yui-link/resources/links/{}.json", name);
        if let Ok(txt) = std::fs::read_to_string(&path) {
            if let Ok(val) = serde_json::from_str::<Vec<[usize; 4]>>(&txt) {
                v.push((name, val));
            }
        }
    }
    v
}

/// diagrams with a component that only passes over (its orientation is not determined by the code)
pub fn over_only_catalogue() -> Vec<(&'static str, Pd)> {
    vec![
        ("unknot+over-circle", vec![[1, 3, 2, 4], [2, 3, 1, 4]]),
        ("trefoil+over-circle", vec![[8, 4, 2, 5], [3, 6, 4, 1], [5, 2, 6, 3], [1, 9, 7, 10], [7, 9, 8, 10]]),
    ]
}

/// diagrams with SEVERAL components that never pass under (their orientation is not induced by the code). Used by the
/// link-level facts of C18 only: the larger ones are beyond the step budget of the Khovanov configurations.
pub fn multi_over_only_catalogue() -> Vec<(&'static str, Pd)> {
    let mut v = vec![("unknot+2 over-circles", vec![[1, 3, 2, 4], [2, 5, 7, 6], [7, 5, 8, 6], [8, 3, 1, 4]])];
    let tre: Pd = vec![[1, 4, 2, 5], [3, 6, 4, 1], [5, 2, 6, 3]];
    let hopf: Pd = vec![[4, 1, 3, 2], [2, 3, 1, 4]];
    let fig8: Pd = vec![[4, 2, 5, 1], [8, 6, 1, 5], [6, 3, 7, 4], [2, 7, 3, 8]];
    for (name, base, ks) in [
        ("trefoil+2 over-circles", &tre, vec![0usize, 1]),
        ("trefoil+3 over-circles", &tre, vec![2, 0, 1]),
        ("hopf+2 over-circles", &hopf, vec![0, 1]),
        ("figure8+2 over-circles", &fig8, vec![1, 3]),
        ("trefoil+2 over-circles on one edge", &tre, vec![0, 0]),
    ] {
        let mut pd = base.clone();
        let mut ok = true;
        for k in ks {
            match add_over_circle(&pd, k) {
                Some(q) => pd = q,
                None => ok = false,
            }
        }
        if ok {
            v.push((name, pd));
        }
    }
    v
}

/// lay a small circle OVER the edge that leaves crossing `k` through its outgoing under-slot (position 2): two new
/// crossings, the old strand passes under both; the circle never passes under, so its orientation is free.
/// None if that edge returns to the same crossing (kink).
pub fn add_over_circle(pd: &Pd, k: usize) -> Option<Pd> {
    let e = pd[k][2];
    let fresh = pd.iter().flat_map(|x| x.iter().cloned()).max().unwrap_or(0);
    let (n1, n2, c1, c2) = (fresh + 1, fresh + 2, fresh + 3, fresh + 4);
    // the other end of e: any slot holding e except (k, 2)
    let mut other = None;
    for (c, x) in pd.iter().enumerate() {
        for j in 0..4 {
            if x[j] == e && !(c == k && j == 2) {
                if other.is_some() {
                    return None;
                }
                other = Some((c, j));
            }
        }
    }
    let (oc, oj) = other?;
    if oc == k {
        return None;
    }
    let mut q = pd.clone();
    q[oc][oj] = n2;
    q.push([e, c1, n1, c2]);
    q.push([n1, c1, n2, c2]);
    Some(q)
}

/// larger diagrams, read (as data) from the repository's link table
pub fn big_catalogue() -> Vec<(&'static str, Pd)> {
    let mut v = Vec::new();
    for name in ["5_1", "5_2", "L4a1", "L5a1", "6_1", "6_2", "6_3", "L6n1", "L7n1", "L7n2"] {
        let path = format!("/repo/yui-link/resources/links/{}.json", name);
        if let Ok(txt) = std::fs::read_to_string(&path) {
            if let Ok(val) = serde_json::from_str::<Vec<[usize; 4]>>(&txt) {
                v.push((name, val));
            }
        }
    }
    v
}
