//! helpers shared by the harnesses: matrices over a generic ring built from integer inputs,
//! "is zero" obligations for derived rings, reference algebra on Vec<Vec<R>>.

use crate::ctx::Rel;
use crate::vint::{VInt, VIntOps, VF};
use num_traits::{One, Zero};
use yui::{EucRing, EucRingOps, QuadInt, Ratio, Ring, RingOps};
use yui_matrix::dense::Mat;
use yui_matrix::sparse::SpMat;
use yui_matrix::MatTrait;

/// a ring whose elements decompose into integer components of the harness's integer type
pub trait VRing<I>: Ring + Clone
where
    I: VInt,
    for<'x> &'x I: VIntOps<I>,
    for<'x> &'x Self: RingOps<Self>,
{
    /// integer components that are all zero iff the element is zero
    fn zero_comps(&self) -> Vec<I>;
    /// number of integer inputs needed to build one element
    const ARITY: usize;
    fn build(xs: &[I]) -> Self;
    fn ring_name() -> &'static str;
    /// formula: self is an associate of other (self = u * other for a unit u)
    fn associate(&self, other: &Self) -> VF<I>;
    /// formula: self is a unit
    fn unit_formula(&self) -> VF<I>;
}

impl<I> VRing<I> for I
where
    I: VInt,
    for<'x> &'x I: VIntOps<I>,
{
    fn zero_comps(&self) -> Vec<I> {
        vec![self.clone()]
    }
    const ARITY: usize = 1;
    fn build(xs: &[I]) -> I {
        xs[0].clone()
    }
    fn ring_name() -> &'static str {
        "Z"
    }
    fn associate(&self, o: &I) -> VF<I> {
        VF::Or(vec![VF::zero(self - o), VF::zero(self + o)])
    }
    fn unit_formula(&self) -> VF<I> {
        VF::Or(vec![VF::zero(self - &I::one()), VF::zero(self + &I::one())])
    }
}

impl<I, const D: i32> VRing<I> for QuadInt<I, D>
where
    I: VInt,
    for<'x> &'x I: VIntOps<I>,
{
    fn zero_comps(&self) -> Vec<I> {
        vec![self.left().clone(), self.right().clone()]
    }
    const ARITY: usize = 2;
    fn build(xs: &[I]) -> Self {
        QuadInt::new(xs[0].clone(), xs[1].clone())
    }
    fn ring_name() -> &'static str {
        match D {
            -1 => "Z[i]",
            -3 => "Z[omega]",
            _ => "Z[sqrt D]",
        }
    }
    fn associate(&self, o: &Self) -> VF<I> {
        let units: Vec<Self> = match D {
            -1 => vec![Self::one(), -Self::one(), Self::omega(), -Self::omega()],
            -3 => {
                let w = Self::omega();
                let w2 = &w * &w;
                vec![Self::one(), -Self::one(), w.clone(), -w, w2.clone(), -w2]
            }
            _ => vec![Self::one(), -Self::one()],
        };
        VF::Or(units.iter().map(|u| is_zero_f::<I, Self>(&(self - &(u * o)))).collect())
    }
    fn unit_formula(&self) -> VF<I> {
        let n = self.norm();
        VF::Or(vec![VF::zero(&n - &I::one()), VF::zero(&n + &I::one())])
    }
}

impl<I> VRing<I> for Ratio<I>
where
    I: VInt,
    for<'x> &'x I: VIntOps<I>,
{
    fn zero_comps(&self) -> Vec<I> {
        vec![self.numer().clone()]
    }
    const ARITY: usize = 1;
    fn build(xs: &[I]) -> Self {
        Ratio::from(xs[0].clone())
    }
    fn ring_name() -> &'static str {
        "Q"
    }
    fn associate(&self, o: &Self) -> VF<I> {
        // in a field: both zero or both non-zero
        VF::Or(vec![VF::And(vec![VF::zero(self.numer().clone()), VF::zero(o.numer().clone())]), VF::And(vec![VF::nonzero(self.numer().clone()), VF::nonzero(o.numer().clone())])])
    }
    fn unit_formula(&self) -> VF<I> {
        VF::nonzero(self.numer().clone())
    }
}

impl<I> VRing<I> for yui::poly::Poly<'H', I>
where
    I: VInt,
    for<'x> &'x I: VIntOps<I>,
{
    fn zero_comps(&self) -> Vec<I> {
        self.iter().map(|(_, c)| c.clone()).collect()
    }
    const ARITY: usize = 2;
    /// a + b H
    fn build(xs: &[I]) -> Self {
        [(Self::mono(0), xs[0].clone()), (Self::mono(1), xs[1].clone())].into_iter().collect()
    }
    fn ring_name() -> &'static str {
        "Z[H]"
    }
    fn associate(&self, o: &Self) -> VF<I> {
        VF::Or(vec![is_zero_f::<I, Self>(&(self - o)), is_zero_f::<I, Self>(&(self + o))])
    }
    fn unit_formula(&self) -> VF<I> {
        // units of Z[H] are +-1
        VF::Or(vec![is_zero_f::<I, Self>(&(self - &Self::one())), is_zero_f::<I, Self>(&(self + &Self::one()))])
    }
}

pub fn is_zero_f<I, R>(x: &R) -> VF<I>
where
    I: VInt,
    for<'x> &'x I: VIntOps<I>,
    R: VRing<I>,
    for<'x> &'x R: RingOps<R>,
{
    VF::And(x.zero_comps().into_iter().map(VF::zero).collect())
}

pub fn oblige_zero<I, R>(label: &str, x: &R)
where
    I: VInt,
    for<'x> &'x I: VIntOps<I>,
    R: VRing<I>,
    for<'x> &'x R: RingOps<R>,
{
    I::oblige(label, is_zero_f(x));
}

/// m x n matrix of R from consecutive inputs (row major), consuming R::ARITY inputs per entry
pub fn build_mat<I, R>(m: usize, n: usize, xs: &[I]) -> Mat<R>
where
    I: VInt,
    for<'x> &'x I: VIntOps<I>,
    R: VRing<I> + nalgebra_scalar::Sc,
    for<'x> &'x R: RingOps<R>,
{
    let k = R::ARITY;
    Mat::from_data((m, n), (0..m * n).map(|e| R::build(&xs[e * k..(e + 1) * k])))
}

pub mod nalgebra_scalar {
    /// what yui-matrix needs from a scalar (nalgebra::Scalar is a blanket impl of exactly this)
    pub trait Sc: 'static + Clone + PartialEq + std::fmt::Debug {}
    impl<T: 'static + Clone + PartialEq + std::fmt::Debug> Sc for T {}
}

pub type Grid<R> = Vec<Vec<R>>;

pub fn mat_to_grid<R: Clone>(a: &Mat<R>) -> Grid<R> {
    let (m, n) = a.shape();
    (0..m).map(|i| (0..n).map(|j| a[(i, j)].clone()).collect()).collect()
}

pub fn grid_mul<R>(a: &Grid<R>, b: &Grid<R>, inner: usize, cols: usize) -> Grid<R>
where
    R: Ring,
    for<'x> &'x R: RingOps<R>,
{
    a.iter()
        .map(|row| {
            (0..cols)
                .map(|j| {
                    let mut s = R::zero();
                    for k in 0..inner {
                        s += &row[k] * &b[k][j];
                    }
                    s
                })
                .collect()
        })
        .collect()
}

pub fn grid_id<R: Ring>(n: usize) -> Grid<R>
where
    for<'x> &'x R: RingOps<R>,
{
    (0..n).map(|i| (0..n).map(|j| if i == j { R::one() } else { R::zero() }).collect()).collect()
}

/// obligation: two grids of the same shape are equal entrywise
pub fn oblige_grid_eq<I, R>(label: &str, a: &Grid<R>, b: &Grid<R>)
where
    I: VInt,
    for<'x> &'x I: VIntOps<I>,
    R: VRing<I>,
    for<'x> &'x R: RingOps<R>,
{
    if a.len() != b.len() || a.iter().zip(b).any(|(x, y)| x.len() != y.len()) {
        I::oblige(&format!("{}: shape mismatch", label), VF::False);
        return;
    }
    for (i, (ra, rb)) in a.iter().zip(b).enumerate() {
        for (j, (x, y)) in ra.iter().zip(rb).enumerate() {
            oblige_zero::<I, R>(&format!("{}[{},{}]", label, i, j), &(x - y));
        }
    }
}

/// determinant of a small square grid (cofactor expansion; sizes 0..=4)
pub fn grid_det<R>(a: &Grid<R>) -> R
where
    R: Ring,
    for<'x> &'x R: RingOps<R>,
{
    let n = a.len();
    if n == 0 {
        return R::one();
    }
    if n == 1 {
        return a[0][0].clone();
    }
    let mut s = R::zero();
    for j in 0..n {
        let minor: Grid<R> = (1..n).map(|i| (0..n).filter(|&c| c != j).map(|c| a[i][c].clone()).collect()).collect();
        let t = &a[0][j] * &grid_det(&minor);
        if j % 2 == 0 {
            s += t;
        } else {
            s -= t;
        }
    }
    s
}

pub fn grid_transpose<R: Clone>(a: &Grid<R>, cols: usize) -> Grid<R> {
    (0..cols).map(|j| a.iter().map(|r| r[j].clone()).collect()).collect()
}

pub fn sub_grid<R: Clone>(a: &Grid<R>, rows: &[usize], cols: &[usize]) -> Grid<R> {
    rows.iter().map(|&i| cols.iter().map(|&j| a[i][j].clone()).collect()).collect()
}

/// dense grid of a sparse matrix, read from the raw stored triples (explicit zeros and all)
pub fn sp_to_grid<R>(a: &SpMat<R>) -> Grid<R>
where
    R: Ring,
    for<'x> &'x R: RingOps<R>,
{
    let (m, n) = a.shape();
    let mut g: Grid<R> = (0..m).map(|_| (0..n).map(|_| R::zero()).collect()).collect();
    for (i, j, x) in a.iter() {
        g[i][j] += x;
    }
    g
}

pub fn build_grid<I, R>(m: usize, n: usize, xs: &[I]) -> Grid<R>
where
    I: VInt,
    for<'x> &'x I: VIntOps<I>,
    R: VRing<I>,
    for<'x> &'x R: RingOps<R>,
{
    let k = R::ARITY;
    (0..m).map(|i| (0..n).map(|j| R::build(&xs[(i * n + j) * k..(i * n + j + 1) * k])).collect()).collect()
}

pub fn grid_to_sp<R>(g: &Grid<R>, m: usize, n: usize) -> SpMat<R>
where
    R: Ring + nalgebra_scalar::Sc,
    for<'x> &'x R: RingOps<R>,
{
    SpMat::from_dense_data((m, n), g.iter().flat_map(|r| r.iter().cloned()))
}

/// all k-subsets of 0..n
pub fn subsets(n: usize, k: usize) -> Vec<Vec<usize>> {
    fn rec(start: usize, n: usize, k: usize, cur: &mut Vec<usize>, out: &mut Vec<Vec<usize>>) {
        if cur.len() == k {
            out.push(cur.clone());
            return;
        }
        for i in start..n {
            cur.push(i);
            rec(i + 1, n, k, cur, out);
            cur.pop();
        }
    }
    let mut out = Vec::new();
    rec(0, n, k, &mut Vec::new(), &mut out);
    out
}

/// reference rank from minors (the harness observes which minors vanish: oracle decisions)
pub fn rank_by_minors<R>(g: &Grid<R>, m: usize, n: usize) -> usize
where
    R: Ring,
    for<'x> &'x R: RingOps<R>,
{
    for s in (1..=m.min(n)).rev() {
        for rows in subsets(m, s) {
            for cols in subsets(n, s) {
                if !grid_det(&sub_grid(g, &rows, &cols)).is_zero() {
                    return s;
                }
            }
        }
    }
    0
}

/// reference invariant factors e_1 | e_2 | ... (up to units) from gcds of minors: e_s = d_s / d_{s-1}
pub fn invariant_factors_by_minors<R>(g: &Grid<R>, m: usize, n: usize) -> Vec<R>
where
    R: EucRing,
    for<'x> &'x R: EucRingOps<R>,
{
    let mut out = Vec::new();
    let mut prev = R::one();
    for s in 1..=m.min(n) {
        let mut d = R::zero();
        for rows in subsets(m, s) {
            for cols in subsets(n, s) {
                let x = grid_det(&sub_grid(g, &rows, &cols));
                d = R::gcd(&d, &x);
            }
        }
        if d.is_zero() {
            break;
        }
        out.push(&d / &prev);
        prev = d;
    }
    out
}
