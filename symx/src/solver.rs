//! SMT solver plumbing: one long-lived `z3 -in` process, push/pop per query, text protocol.
//! Any `(error` line makes the answer Unknown (never Unsat).

use num_bigint::BigInt;
use std::collections::HashMap;
use std::io::{BufRead, BufReader, Write};
use std::process::{Child, ChildStdin, ChildStdout, Command, Stdio};
use std::time::{Duration, Instant};

#[derive(Clone, Debug, PartialEq, Eq)]
pub enum Answer {
    Sat,
    Unsat,
    Unknown(String),
}

pub struct Solver {
    pub name: String,
    child: Child,
    stdin: ChildStdin,
    stdout: BufReader<ChildStdout>,
    pub queries: u64,
    pub sat: u64,
    pub unsat: u64,
    pub unknown: u64,
    pub time: Duration,
    pub log: Option<std::fs::File>,
    depth: usize,
    /// mirror of the assertion stack (declarations and assertions per frame) for one-shot fallback runs
    frames: Vec<Vec<String>>,
    pub fallback_ms: u64,
    pub fallback_solvers: usize,
    pub fallbacks: u64,
    pub fallback_resolved: u64,
}

impl Solver {
    pub fn z3(timeout_ms: u64) -> Solver {
        let bin = std::env::var("SYMX_Z3").unwrap_or_else(|_| "z3-new".to_string());
        Solver::spawn("z3", &bin, &["-in".to_string(), format!("-t:{}", timeout_ms)], "(set-logic ALL)\n(set-option :produce-models true)\n")
    }
    pub fn z3_new(timeout_ms: u64) -> Solver {
        Solver::spawn("z3-new", "z3-new", &["-in".to_string(), format!("-t:{}", timeout_ms)], "(set-logic ALL)\n(set-option :produce-models true)\n")
    }
    pub fn cvc5(timeout_ms: u64) -> Solver {
        Solver::spawn(
            "cvc5",
            "cvc5",
            &["--lang".into(), "smt2".into(), "--incremental".into(), format!("--tlimit-per={}", timeout_ms), "--produce-models".into()],
            "(set-logic ALL)\n",
        )
    }
    fn spawn(name: &str, bin: &str, args: &[String], prelude: &str) -> Solver {
        let mut child = Command::new(bin)
            .args(args)
            .stdin(Stdio::piped())
            .stdout(Stdio::piped())
            .stderr(Stdio::null())
            .spawn()
            .unwrap_or_else(|e| panic!("cannot start {}: {}", bin, e));
        let stdin = child.stdin.take().unwrap();
        let stdout = BufReader::new(child.stdout.take().unwrap());
        let log = std::env::var("SYMX_SMT_LOG").ok().map(|p| {
            std::fs::OpenOptions::new().create(true).append(true).open(format!("{}.{}", p, name)).unwrap()
        });
        let mut s = Solver { name: name.into(), child, stdin, stdout, queries: 0, sat: 0, unsat: 0, unknown: 0, time: Duration::ZERO, log, depth: 0, frames: vec![vec![]], fallback_ms: 6000, fallback_solvers: 1, fallbacks: 0, fallback_resolved: 0 };
        s.send(prelude);
        s
    }
    pub fn send(&mut self, text: &str) {
        if let Some(l) = self.log.as_mut() {
            let _ = l.write_all(text.as_bytes());
            let _ = l.write_all(b"\n");
        }
        self.stdin.write_all(text.as_bytes()).expect("solver stdin");
        self.stdin.write_all(b"\n").expect("solver stdin");
    }
    pub fn declare(&mut self, name: &str) {
        let c = format!("(declare-const {} Int)", name);
        self.frames.last_mut().unwrap().push(c.clone());
        self.send(&c);
    }
    pub fn assert(&mut self, f: &str) {
        let c = format!("(assert {})", f);
        self.frames.last_mut().unwrap().push(c.clone());
        self.send(&c);
    }
    pub fn push(&mut self) {
        self.depth += 1;
        self.frames.push(vec![]);
        self.send("(push 1)");
    }
    pub fn pop(&mut self) {
        assert!(self.depth > 0);
        self.depth -= 1;
        self.frames.pop();
        self.send("(pop 1)");
    }
    /// the current assertion stack as a stand-alone script
    pub fn script(&self) -> String {
        let mut s = String::from("(set-logic ALL)\n");
        for f in &self.frames {
            for c in f {
                s.push_str(c);
                s.push('\n');
            }
        }
        s
    }
    /// one-shot re-run of the current query on fresh solver processes (non-incremental z3-new, then cvc5, then
    /// z3 4.8.12); returns the first definite answer, with a model for `names` when sat
    pub fn fallback(&mut self, names: &[String]) -> (Answer, Option<HashMap<String, BigInt>>) {
        self.fallbacks += 1;
        let t0 = Instant::now();
        let mut script = self.script();
        script.push_str("(check-sat)\n");
        if !names.is_empty() {
            script.push_str(&format!("(get-value ({}))\n", names.join(" ")));
        }
        let secs = (self.fallback_ms / 1000).max(1);
        let cmds: Vec<(&str, Vec<String>)> = vec![
            ("z3-new", vec!["-in".into(), format!("-T:{}", secs)]),
            ("cvc5", vec!["--lang".into(), "smt2".into(), format!("--tlimit={}", self.fallback_ms), "--produce-models".into()]),
            ("/usr/bin/z3", vec!["-in".into(), format!("-T:{}", secs)]),
        ];
        let mut result = (Answer::Unknown("fallback: no solver decided".into()), None);
        let cmds: Vec<(&str, Vec<String>)> = cmds.into_iter().take(self.fallback_solvers).collect();
        for (bin, args) in cmds {
            let child = Command::new(bin).args(&args).stdin(Stdio::piped()).stdout(Stdio::piped()).stderr(Stdio::null()).spawn();
            let Ok(mut child) = child else { continue };
            {
                let mut si = child.stdin.take().unwrap();
                let _ = si.write_all(script.as_bytes());
            }
            let Ok(out) = child.wait_with_output() else { continue };
            let text = String::from_utf8_lossy(&out.stdout).to_string();
            if text.contains("(error") {
                continue;
            }
            let first = text.lines().next().unwrap_or("").trim().to_string();
            if first == "unsat" {
                result = (Answer::Unsat, None);
                break;
            }
            if first == "sat" {
                let rest: String = text.lines().skip(1).collect::<Vec<_>>().join(" ");
                let mut m = HashMap::new();
                if names.is_empty() || parse_values(&rest, &mut m).is_some() {
                    result = (Answer::Sat, Some(m));
                    break;
                }
            }
        }
        self.time += t0.elapsed();
        if matches!(result.0, Answer::Unknown(_)) {
            if let Ok(dir) = std::env::var("SYMX_DUMP_UNKNOWN") {
                let _ = std::fs::write(format!("{}/unknown_{}_{}.smt2", dir, std::process::id(), self.fallbacks), &script);
            }
        }
        if !matches!(result.0, Answer::Unknown(_)) {
            self.fallback_resolved += 1;
            // re-classify the earlier "unknown"
            self.unknown = self.unknown.saturating_sub(1);
            match result.0 {
                Answer::Sat => self.sat += 1,
                Answer::Unsat => self.unsat += 1,
                _ => {}
            }
        }
        result
    }
    /// check-sat with fallback; returns the answer and (when sat) the model of `names`
    pub fn check_model(&mut self, names: &[String]) -> (Answer, Option<HashMap<String, BigInt>>) {
        match self.check() {
            Answer::Sat => {
                let m = self.model(names);
                (Answer::Sat, m)
            }
            Answer::Unsat => (Answer::Unsat, None),
            Answer::Unknown(_) => self.fallback(names),
        }
    }
    fn read_line(&mut self) -> String {
        let mut line = String::new();
        let n = self.stdout.read_line(&mut line).expect("solver stdout");
        if n == 0 {
            return "(error \"solver closed its output\")".into();
        }
        line.trim().to_string()
    }
    /// read one complete s-expression (balanced parentheses) or atom
    fn read_sexp(&mut self) -> String {
        let mut buf = String::new();
        let mut depth: i64 = 0;
        loop {
            let line = self.read_line();
            for ch in line.chars() {
                if ch == '(' {
                    depth += 1
                } else if ch == ')' {
                    depth -= 1
                }
            }
            buf.push_str(&line);
            buf.push(' ');
            if depth <= 0 && !buf.trim().is_empty() {
                return buf;
            }
            if line.starts_with("(error \"solver closed") {
                return buf;
            }
        }
    }
    pub fn check(&mut self) -> Answer {
        let t0 = Instant::now();
        self.queries += 1;
        self.send("(check-sat)");
        self.stdin.flush().ok();
        let mut ans;
        loop {
            let line = self.read_sexp();
            let l = line.trim();
            if l.starts_with("(error") {
                ans = Answer::Unknown(l.to_string());
                if l.contains("solver closed") {
                    break;
                }
                // an error line may precede the verdict; the verdict is then not trusted
                let v = self.read_sexp();
                let _ = v;
                break;
            }
            ans = match l {
                "sat" => Answer::Sat,
                "unsat" => Answer::Unsat,
                "unknown" | "timeout" => Answer::Unknown(l.into()),
                other => Answer::Unknown(format!("unexpected: {}", other)),
            };
            break;
        }
        self.time += t0.elapsed();
        match ans {
            Answer::Sat => self.sat += 1,
            Answer::Unsat => self.unsat += 1,
            Answer::Unknown(_) => self.unknown += 1,
        }
        ans
    }
    /// values of the named Int constants in the current model
    pub fn model(&mut self, names: &[String]) -> Option<HashMap<String, BigInt>> {
        if names.is_empty() {
            return Some(HashMap::new());
        }
        let mut out = HashMap::new();
        for chunk in names.chunks(64) {
            self.send(&format!("(get-value ({}))", chunk.join(" ")));
            self.stdin.flush().ok();
            let s = self.read_sexp();
            if s.trim_start().starts_with("(error") {
                return None;
            }
            parse_values(&s, &mut out)?;
        }
        Some(out)
    }
}

impl Drop for Solver {
    fn drop(&mut self) {
        let _ = self.stdin.write_all(b"(exit)\n");
        let _ = self.child.kill();
        let _ = self.child.wait();
    }
}

/// parses `((x 5) (y (- 3)) ...)`
fn parse_values(s: &str, out: &mut HashMap<String, BigInt>) -> Option<()> {
    let toks: Vec<String> = s.replace('(', " ( ").replace(')', " ) ").split_whitespace().map(|x| x.to_string()).collect();
    let mut i = 0;
    if toks.get(i)? != "(" {
        return None;
    }
    i += 1;
    while i < toks.len() && toks[i] == "(" {
        let name = toks.get(i + 1)?.clone();
        i += 2;
        let val;
        if toks.get(i)? == "(" {
            // (- N)
            if toks.get(i + 1)? != "-" {
                return None;
            }
            let n: BigInt = toks.get(i + 2)?.parse().ok()?;
            val = -n;
            i += 4;
        } else {
            val = toks.get(i)?.parse().ok()?;
            i += 1;
        }
        if toks.get(i)? != ")" {
            return None;
        }
        i += 1;
        out.insert(name, val);
    }
    Some(())
}
