use num_bigint::BigInt;
use symx::khref;
use symx::props::c01::link_of;
use yui_homology::{GridTrait, SummandTrait};
use yui_kh::kh::KhComplex;
fn main() {
    let args: Vec<String> = std::env::args().collect();
    let (h, t): (i64, i64) = (args[1].parse().unwrap(), args[2].parse().unwrap());
    let name = &args[3];
    let mirror = args[4] == "1";
    let which = &args[5];
    let pd = khref::catalogue().into_iter().chain(khref::big_catalogue()).find(|x| x.0 == name).unwrap().1;
    let (h, t) = (BigInt::from(h), BigInt::from(t));
    let t0 = std::time::Instant::now();
    if which == "lib" {
        let l = link_of(&pd, mirror);
        let c = KhComplex::<BigInt>::new(&l, &h, &t, false);
        let kh = c.homology();
        let lib: Vec<String> = kh.support().map(|i| format!("{}:{}+{:?}", i, kh[i].rank(), kh[i].tors())).collect();
        println!("lib {:?} {:?}", t0.elapsed(), lib);
    } else {
        let rc = khref::cube_complex::<BigInt>(&pd, mirror, &h, &t, false).unwrap();
        println!("cube built {:?} dims {:?}", t0.elapsed(), rc.gens.iter().map(|g| g.len()).collect::<Vec<_>>());
        let sig: Vec<String> = khref::homology_signature(&rc, &|x: &BigInt| num_traits::Signed::abs(x)).iter().map(|s| format!("{}:{}+{:?}", s.0, s.1, s.2)).collect();
        println!("ref {:?} {:?}", t0.elapsed(), sig);
    }
}
