use num_bigint::BigInt;
use symx::khref;
use symx::props::c01::link_of;
use yui_homology::{GridTrait, SummandTrait, ChainComplexTrait};
use yui_kh::kh::KhComplex;
fn main() {
    let args: Vec<String> = std::env::args().collect();
    let (h, t): (i64, i64) = (args[1].parse().unwrap(), args[2].parse().unwrap());
    for (name, pd) in khref::catalogue().into_iter().chain(khref::big_catalogue()) {
        for mirror in [false, true] {
            let t0 = std::time::Instant::now();
            let (h, t) = (BigInt::from(h), BigInt::from(t));
            let l = link_of(&pd, mirror);
            let c = KhComplex::<BigInt>::new(&l, &h, &t, false);
            let kh = c.homology();
            let lib: Vec<String> = kh.support().map(|i| format!("{}:{}+{:?}", i, kh[i].rank(), kh[i].tors())).collect();
            let rc = khref::cube_complex::<BigInt>(&pd, mirror, &h, &t, false).unwrap();
            let sig: Vec<String> = khref::homology_signature(&rc, &|x: &BigInt| num_traits::Signed::abs(x)).iter().map(|s| format!("{}:{}+{:?}", s.0, s.1, s.2)).collect();
            println!("{} mirror={} signs={:?} {:?}\n  lib {:?}\n  ref {:?}", name, mirror, khref::signed_crossings(&pd, mirror), t0.elapsed(), lib, sig);
        }
    }
}
