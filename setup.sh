#!/bin/sh
# Build the verification machinery offline from files on disk. Idempotent.
set -e
cd "$(dirname "$0")"
export CARGO_NET_OFFLINE=true
mkdir -p .build evidence replay
(cd kani && CARGO_TARGET_DIR=/verif/.build/kani cargo kani --only-codegen -Z stubbing >/verif/.build/setup_kani.log 2>&1) || { tail -50 /verif/.build/setup_kani.log; exit 1; }
if [ -d symx ]; then
  (cd symx && CARGO_TARGET_DIR=/verif/.build/symx RUSTFLAGS="--cfg yui_verif" cargo build --release --offline >/verif/.build/setup_symx.log 2>&1) || { tail -50 /verif/.build/setup_symx.log; exit 1; }
fi
echo setup ok
